import XrsVerif.Proofs.ILangStrides
import XrsVerif.Gen.IL
import XrsVerif.Model.Focal
/-
  Proofs/ILFocal.lean -- refinement (layer T3): the ILang program `Gen.IL.convolve2d`, generated statement by
  statement from `_convolve_2d_numpy` of xrspatial/convolution.py, computes, for every raster and every kernel of
  odd shape `(2a+1) × (2b+1)`: NaN on the border of width `(a, b)` and, at every interior cell, the sum --
  accumulated from `0.0` by `Fl.add` in the program's order (kernel rows outer, kernel columns inner; no
  associativity or commutativity assumed) -- of `kernel[k, l] * data[i - a + k, j - b + l]`.

  * `listArr`: a flat row-major list with a column count, seen as a 2-D array `Focal.Arr`.
  * `convSum`: the nested fold the two inner loops compute; `convSum_eq_fsum`: it is `fsum` of the row-major list
    of products (the form of `C09.conv_spec`).
  * `conv_jj`, `conv_ii`, `conv_cell`, `conv_row`, `conv_rows`: one lemma per loop / block.
  * `convOut`: the specification of the whole output; `convolve2d_refines`: the theorem about `Gen.IL.convolve2d`.
  * `convolve2d_even_err`: with an even kernel side (and at least one cell visited by the outer loops) the program
    stops with an out-of-range read of `kernel`.
-/
namespace XrsVerif.Focal
open XrsVerif XrsVerif.IL XrsVerif.IL.Sd
set_option linter.unusedSectionVars false
set_option linter.unusedSimpArgs false
variable {F : Type} [Fl F]

/-- (as `mem_intRange` of Proofs/Focal.lean; this file does not depend on the T2 proofs) -/
theorem mem_intRange' (lo hi k : Int) : k ∈ intRange lo hi ↔ lo ≤ k ∧ k < hi := by
  simp only [intRange, List.mem_map, List.mem_range]
  constructor
  · rintro ⟨a, ha, rfl⟩; omega
  · intro h; exact ⟨(k - lo).toNat, by omega, by omega⟩

/-- a flat row-major list with `cols` columns as a 2-D array (non-negative indices) -/
def listArr (l : List F) (cols : Nat) : Arr F := fun i j => l.getD (i.toNat * cols + j.toNat) Fl.nan

/-- the value the two inner loops accumulate into `num`, starting from `acc`: kernel rows outer, kernel columns
    inner, `acc + kernel[k, l] * data[i - a + k, j - b + l]` -/
def convSum (D K : Arr F) (nkx nky : Nat) (a b : Nat) (i j : Int) (acc : F) : F :=
  (List.range nkx).foldl (fun acc (k : Nat) =>
    (List.range nky).foldl (fun acc (l : Nat) =>
      Fl.add acc (Fl.mul (K (k : Int) (l : Int)) (D (i - (a : Int) + (k : Int)) (j - (b : Int) + (l : Int))))) acc) acc

/-- the nested fold is `fsum` (a `foldl` of `Fl.add` from `0`) of the row-major list of products -/
theorem convSum_eq_fsum (D K : Arr F) (nkx nky a b : Nat) (i j : Int) :
    convSum D K nkx nky a b i j (Fl.lit 0 1) =
      fsum ((allCells nkx nky).map fun p =>
        Fl.mul (K p.1 p.2) (D (i - (a : Int) + p.1) (j - (b : Int) + p.2))) := by
  unfold convSum fsum allCells
  rw [List.map_flatMap, List.foldl_flatMap]
  congr 1
  funext acc k
  rw [List.map_map, List.foldl_map]
  rfl

/-! ### the pieces of `Gen.IL.convolve2d` -/

def stJJBody : St :=
  .seq (.setI "jjj" (.bin .sub (.bin .add (.var "wky") (.var "jj")) (.var "j")))
    (.setF "num" (.bin .add (.var "num") (.bin .mul (.ld2 "kernel" (.var "iii") (.var "jjj")) (.ld2 "data" (.var "ii") (.var "jj")))))
def stJJ : St := .forRange "jj" (.var "jjmin") (.var "jjmax") (.lit 1) stJJBody
def stIIBody : St := .seq (.setI "iii" (.bin .sub (.bin .add (.var "wkx") (.var "ii")) (.var "i"))) stJJ
def stII : St := .forRange "ii" (.var "iimin") (.var "iimax") (.lit 1) stIIBody
def stCell : St :=
  .seq (.setI "jjmin" (.bin .max (.bin .sub (.var "j") (.var "wky")) (.lit 0)))
  (.seq (.setI "jjmax" (.bin .min (.bin .add (.bin .add (.var "j") (.var "wky")) (.lit 1)) (.var "ny")))
  (.seq (.setF "num" (.lit 0 1))
  (.seq stII
  (.stF2 "out" (.var "i") (.var "j") (.var "num")))))
def stJ : St := .forRange "j" (.var "wky") (.bin .sub (.var "ny") (.var "wky")) (.lit 1) stCell
def stRow : St :=
  .seq (.setI "iimin" (.bin .max (.bin .sub (.var "i") (.var "wkx")) (.lit 0)))
  (.seq (.setI "iimax" (.bin .min (.bin .add (.bin .add (.var "i") (.var "wkx")) (.lit 1)) (.var "nx")))
  stJ)
def stI : St := .forRange "i" (.var "wkx") (.bin .sub (.var "nx") (.var "wkx")) (.lit 1) stRow

/-- what the loops need of the state: the two input arrays with their shapes, the shape of `out`, the size
    variables; the kernel has odd shape `(2a+1) × (2b+1)` -/
structure CInv (data kernel : List F) (nx ny nkx nky a b : Nat) (s : State F) : Prop where
  ctl : s.ctl = .run
  shd : s.shp "data" = [nx, ny]
  shk : s.shp "kernel" = [nkx, nky]
  sho : s.shp "out" = [nx, ny]
  fad : s.fa "data" = data
  fak : s.fa "kernel" = kernel
  vnx : s.ienv "nx" = nx
  vny : s.ienv "ny" = ny
  vwkx : s.ienv "wkx" = a
  vwky : s.ienv "wky" = b

/-- `r` is a running state that differs from `s` at most in the integer variables `L`, in numeric scalars and in
    the contents of `out` -/
structure Keeps (L : List String) (s r : State F) : Prop where
  ctl : r.ctl = .run
  shp : r.shp = s.shp
  fa : ∀ x, x ≠ "out" → r.fa x = s.fa x
  ienv : ∀ v, v ∉ L → r.ienv v = s.ienv v

theorem Keeps.refl (L : List String) (s : State F) (h : s.ctl = .run) : Keeps L s s :=
  ⟨h, rfl, fun _ _ => rfl, fun _ _ => rfl⟩

theorem Keeps.trans {L : List String} {s r t : State F} (h1 : Keeps L s r) (h2 : Keeps L r t) : Keeps L s t :=
  ⟨h2.ctl, h2.shp.trans h1.shp, fun x hx => (h2.fa x hx).trans (h1.fa x hx),
   fun v hv => (h2.ienv v hv).trans (h1.ienv v hv)⟩

theorem Keeps.mono {L L' : List String} {s r : State F} (h : Keeps L s r) (hsub : ∀ v, v ∈ L → v ∈ L') :
    Keeps L' s r :=
  ⟨h.ctl, h.shp, h.fa, fun v hv => h.ienv v (fun hm => hv (hsub v hm))⟩

theorem CInv.keeps {data kernel : List F} {nx ny nkx nky a b : Nat} {L : List String} {s r : State F}
    (h : CInv data kernel nx ny nkx nky a b s) (hk : Keeps L s r)
    (h1 : "nx" ∉ L) (h2 : "ny" ∉ L) (h3 : "wkx" ∉ L) (h4 : "wky" ∉ L) : CInv data kernel nx ny nkx nky a b r :=
  ⟨hk.ctl, by rw [hk.shp]; exact h.shd, by rw [hk.shp]; exact h.shk, by rw [hk.shp]; exact h.sho,
   by rw [hk.fa _ (by decide)]; exact h.fad, by rw [hk.fa _ (by decide)]; exact h.fak,
   by rw [hk.ienv _ h1]; exact h.vnx, by rw [hk.ienv _ h2]; exact h.vny,
   by rw [hk.ienv _ h3]; exact h.vwkx, by rw [hk.ienv _ h4]; exact h.vwky⟩

/-- the innermost statement pair at kernel cell `(k, l)` over data cell `(ii, jj)`, `jj = j - b + l` -/
theorem conv_jj_body (data kernel : List F) (nx ny nkx nky a b : Nat) (fuel : Nat) (s : State F) (k l : Nat) (ii j : Int)
    (hI : CInv data kernel nx ny nkx nky a b s) (hk : k < nkx) (hl : l < nky) (hl2 : l < 2 * b + 1)
    (hii0 : 0 ≤ ii) (hii1 : ii < nx) (hj0 : (b : Int) ≤ j) (hj1 : j < (ny : Int) - b)
    (viii : s.ienv "iii" = k) (vii : s.ienv "ii" = ii) (vj : s.ienv "j" = j) :
    exec fuel stJJBody { s with ienv := setS s.ienv "jj" (j - (b : Int) + (l : Int)) } =
      { s with
        ienv := setS (setS s.ienv "jj" (j - (b : Int) + (l : Int))) "jjj" (l : Int),
        fenv := setS s.fenv "num" (Fl.add (s.fenv "num")
          (Fl.mul (listArr kernel nky (k : Int) (l : Int))
                  (listArr data ny ii (j - (b : Int) + (l : Int))))) } := by
  have e1 : (b : Int) + (j - (b : Int) + (l : Int)) - j = (l : Int) := by omega
  have r1 : inRange (k : Int) nkx = true := inRange_of_lt _ _ hk
  have r2 : inRange (l : Int) nky = true := inRange_of_lt _ _ hl
  have r3 : inRange ii nx = true := inRange_of_nonneg_lt _ _ hii0 hii1
  have r4 : inRange (j - (b : Int) + (l : Int)) ny = true := inRange_of_nonneg_lt _ _ (by omega) (by omega)
  have o1 : off2 [nkx, nky] (k : Int) (l : Int) = k * nky + l := off2_nat _ _ _ _
  have o2 : off2 [nx, ny] ii (j - (b : Int) + (l : Int)) = ii.toNat * ny + (j - (b : Int) + (l : Int)).toNat :=
    off2_nonneg _ _ _ _ hii0 (by omega)
  simp [stJJBody, exec, IE.ok, IE.eval, IOp.eval, FE.ok, FE.eval, BinOp.eval, setS, hI.shd, hI.shk, hI.fad, hI.fak,
    hI.vwky, viii, vii, vj, e1, r1, r2, r3, r4, o1, o2, listArr, hI.ctl]

/-- the `jj` loop: one kernel row `k` over data row `ii` -/
theorem conv_jj (data kernel : List F) (nx ny nkx nky a b : Nat) (fuel : Nat) (s : State F) (k : Nat) (ii j : Int)
    (hI : CInv data kernel nx ny nkx nky a b s) (hk : k < nkx) (hnky : 2 * b + 1 ≤ nky)
    (hii0 : 0 ≤ ii) (hii1 : ii < nx) (hj0 : (b : Int) ≤ j) (hj1 : j < (ny : Int) - b)
    (viii : s.ienv "iii" = k) (vii : s.ienv "ii" = ii) (vj : s.ienv "j" = j)
    (vmin : s.ienv "jjmin" = j - (b : Int)) (vmax : s.ienv "jjmax" = j + (b : Int) + 1) :
    let r := exec fuel stJJ s
    Keeps ["jj", "jjj"] s r ∧ r.fa = s.fa ∧
    r.fenv "num" = (List.range (2 * b + 1)).foldl (fun acc (l : Nat) =>
      Fl.add acc (Fl.mul (listArr kernel nky (k : Int) (l : Int))
        (listArr data ny ii (j - (b : Int) + (l : Int))))) (s.fenv "num") := by
  intro r
  have hr : r = loopOver (fun st i => exec fuel stJJBody { st with ienv := setS st.ienv "jj" i })
      ((List.range (2 * b + 1)).map (fun (l : Nat) => j - (b : Int) + (l : Int))) s := by
    simp only [r, stJJ]
    rw [exec_forRange_step1 _ _ _ _ _ _ rfl rfl]
    simp only [IE.eval, vmin, vmax]
    have : (j + (b : Int) + 1 - (j - (b : Int))).toNat = 2 * b + 1 := by omega
    rw [this]
  have h := loopOver_foldl (fun st i => exec fuel stJJBody { st with ienv := setS st.ienv "jj" i })
    ((List.range (2 * b + 1)).map (fun (l : Nat) => j - (b : Int) + (l : Int)))
    (fun st => Keeps ["jj", "jjj"] s st ∧ st.fa = s.fa) (fun st => st.fenv "num")
    (fun acc x => Fl.add acc (Fl.mul (listArr kernel nky (k : Int) (x - (j - (b : Int))))
        (listArr data ny ii x)))
    (by
      intro st x hx hc ⟨hK, hfa⟩
      obtain ⟨l, hl, rfl⟩ := List.mem_map.mp hx
      have hl' : l < nky := Nat.lt_of_lt_of_le (List.mem_range.mp hl) hnky
      have hI' := hI.keeps hK (by decide) (by decide) (by decide) (by decide)
      rw [conv_jj_body data kernel nx ny nkx nky a b fuel st k l ii j hI' hk hl' (List.mem_range.mp hl) hii0 hii1 hj0 hj1
        (by rw [hK.ienv _ (by decide)]; exact viii) (by rw [hK.ienv _ (by decide)]; exact vii)
        (by rw [hK.ienv _ (by decide)]; exact vj)]
      refine ⟨hc, ⟨⟨hc, hK.shp, hK.fa, ?_⟩, hfa⟩, ?_⟩
      · intro v hv
        simp only [List.mem_cons, List.mem_nil_iff, or_false, not_or] at hv
        simp only [setS, hv.1, hv.2, if_false]
        exact hK.ienv v (by simp [hv.1, hv.2])
      · simp only [setS_same]
        have : j - (b : Int) + (l : Int) - (j - (b : Int)) = (l : Int) := by omega
        rw [this])
    s hI.ctl ⟨Keeps.refl _ s hI.ctl, rfl⟩
  rw [← hr] at h
  refine ⟨h.2.1.1, h.2.1.2, ?_⟩
  rw [h.2.2, List.foldl_map]
  congr 1
  funext acc l
  have : j - (b : Int) + (l : Int) - (j - (b : Int)) = (l : Int) := by omega
  rw [this]

/-- the `ii` loop: the whole window of cell `(i, j)` -/
theorem conv_ii (data kernel : List F) (nx ny nkx nky a b : Nat) (fuel : Nat) (s : State F) (i j : Int)
    (hI : CInv data kernel nx ny nkx nky a b s) (hnkx : 2 * a + 1 ≤ nkx) (hnky : 2 * b + 1 ≤ nky)
    (hi0 : (a : Int) ≤ i) (hi1 : i < (nx : Int) - a) (hj0 : (b : Int) ≤ j) (hj1 : j < (ny : Int) - b)
    (vi : s.ienv "i" = i) (vj : s.ienv "j" = j)
    (vimin : s.ienv "iimin" = i - (a : Int)) (vimax : s.ienv "iimax" = i + (a : Int) + 1)
    (vmin : s.ienv "jjmin" = j - (b : Int)) (vmax : s.ienv "jjmax" = j + (b : Int) + 1) :
    let r := exec fuel stII s
    Keeps ["ii", "iii", "jj", "jjj"] s r ∧ r.fa = s.fa ∧
    r.fenv "num" = convSum (listArr data ny) (listArr kernel nky) (2 * a + 1) (2 * b + 1) a b i j (s.fenv "num") := by
  intro r
  have hr : r = loopOver (fun st x => exec fuel stIIBody { st with ienv := setS st.ienv "ii" x })
      ((List.range (2 * a + 1)).map (fun (k : Nat) => i - (a : Int) + (k : Int))) s := by
    simp only [r, stII]
    rw [exec_forRange_step1 _ _ _ _ _ _ rfl rfl]
    simp only [IE.eval, vimin, vimax]
    have : (i + (a : Int) + 1 - (i - (a : Int))).toNat = 2 * a + 1 := by omega
    rw [this]
  have h := loopOver_foldl (fun st x => exec fuel stIIBody { st with ienv := setS st.ienv "ii" x })
    ((List.range (2 * a + 1)).map (fun (k : Nat) => i - (a : Int) + (k : Int)))
    (fun st => Keeps ["ii", "iii", "jj", "jjj"] s st ∧ st.fa = s.fa) (fun st => st.fenv "num")
    (fun acc x => (List.range (2 * b + 1)).foldl (fun acc (l : Nat) =>
      Fl.add acc (Fl.mul (listArr kernel nky (x - (i - (a : Int))) (l : Int))
        (listArr data ny x (j - (b : Int) + (l : Int))))) acc)
    (by
      intro st x hx hc ⟨hK, hfa⟩
      obtain ⟨k, hk, rfl⟩ := List.mem_map.mp hx
      have hk' : k < nkx := Nat.lt_of_lt_of_le (List.mem_range.mp hk) hnkx
      have hI' := hI.keeps hK (by decide) (by decide) (by decide) (by decide)
      have e1 : (a : Int) + (i - (a : Int) + (k : Int)) - i = (k : Int) := by omega
      have hs1 : exec fuel (.setI "iii" (.bin .sub (.bin .add (.var "wkx") (.var "ii")) (.var "i")))
            { st with ienv := setS st.ienv "ii" (i - (a : Int) + (k : Int)) }
          = { st with ienv := setS (setS st.ienv "ii" (i - (a : Int) + (k : Int))) "iii" (k : Int) } := by
        simp [exec, IE.ok, IE.eval, IOp.eval, setS, hI'.vwkx, hK.ienv "i" (by decide), vi, e1]
      have hK1 : Keeps ["ii", "iii", "jj", "jjj"] st
          { st with ienv := setS (setS st.ienv "ii" (i - (a : Int) + (k : Int))) "iii" (k : Int) } := by
        refine ⟨hc, rfl, fun _ _ => rfl, ?_⟩
        intro v hv
        simp only [List.mem_cons, List.mem_nil_iff, or_false, not_or] at hv
        simp only [setS, hv.1, hv.2.1, if_false]
      have hK2 := hK.trans hK1
      have hI1 := hI.keeps hK2 (by decide) (by decide) (by decide) (by decide)
      have hj := conv_jj data kernel nx ny nkx nky a b fuel _ k (i - (a : Int) + (k : Int)) j hI1 hk' hnky (by have := List.mem_range.mp hk; omega) (by have := List.mem_range.mp hk; omega) hj0 hj1
        (by simp) (by simp [setS])
        (by rw [hK2.ienv _ (by decide)]; exact vj) (by rw [hK2.ienv _ (by decide)]; exact vmin)
        (by rw [hK2.ienv _ (by decide)]; exact vmax)
      simp only [stIIBody]
      rw [exec_seq_eq fuel _ _ _ _ hs1 hc]
      obtain ⟨hj1', hj2, hj3⟩ := hj
      refine ⟨hj1'.ctl, ⟨hK2.trans (hj1'.mono (by simp)), by rw [hj2]; exact hfa⟩, ?_⟩
      rw [hj3]
      have : i - (a : Int) + (k : Int) - (i - (a : Int)) = (k : Int) := by omega
      rw [this])
    s hI.ctl ⟨Keeps.refl _ s hI.ctl, rfl⟩
  rw [← hr] at h
  refine ⟨h.2.1.1, h.2.1.2, ?_⟩
  rw [h.2.2, List.foldl_map]
  unfold convSum
  congr 1
  funext acc k
  have : i - (a : Int) + (k : Int) - (i - (a : Int)) = (k : Int) := by omega
  rw [this]

/-- `arr[vi, vj] = vn` with in-range non-negative indices -/
theorem exec_stF2_vars (fuel : Nat) (arr vi vj vn : String) (s : State F) (r c : Nat) (i j : Int)
    (hsh : s.shp arr = [r, c]) (hvi : s.ienv vi = i) (hvj : s.ienv vj = j)
    (hi0 : 0 ≤ i) (hi1 : i < r) (hj0 : 0 ≤ j) (hj1 : j < c) :
    exec fuel (.stF2 arr (.var vi) (.var vj) (.var vn)) s =
      { s with fa := setS s.fa arr ((s.fa arr).set (i.toNat * c + j.toNat) (s.fenv vn)) } := by
  simp [exec, IE.ok, IE.eval, FE.ok, FE.eval, hsh, hvi, hvj, inRange_of_nonneg_lt _ _ hi0 hi1,
    inRange_of_nonneg_lt _ _ hj0 hj1, off2_nonneg _ _ _ _ hi0 hj0]

/-- the body of the `j` loop: output cell `(i, j)` receives the window sum, nothing else of `out` changes -/
theorem conv_cell (data kernel : List F) (nx ny nkx nky a b : Nat) (fuel : Nat) (s : State F) (i j : Int)
    (hI : CInv data kernel nx ny nkx nky a b s) (hnkx : 2 * a + 1 ≤ nkx) (hnky : 2 * b + 1 ≤ nky)
    (hi0 : (a : Int) ≤ i) (hi1 : i < (nx : Int) - a) (hj0 : (b : Int) ≤ j) (hj1 : j < (ny : Int) - b)
    (vi : s.ienv "i" = i) (vj : s.ienv "j" = j)
    (vimin : s.ienv "iimin" = i - (a : Int)) (vimax : s.ienv "iimax" = i + (a : Int) + 1) :
    let r := exec fuel stCell s
    Keeps ["jjmin", "jjmax", "ii", "iii", "jj", "jjj"] s r ∧
    r.fa "out" = (s.fa "out").set (i.toNat * ny + j.toNat)
      (convSum (listArr data ny) (listArr kernel nky) (2 * a + 1) (2 * b + 1) a b i j (Fl.lit 0 1)) := by
  intro r
  have h1 : exec fuel (.setI "jjmin" (.bin .max (.bin .sub (.var "j") (.var "wky")) (.lit 0))) s =
      { s with ienv := setS s.ienv "jjmin" (j - (b : Int)) } := by
    have : ¬ (0 > j - (b : Int)) := by omega
    simp [exec, IE.ok, IE.eval, IOp.eval, vj, hI.vwky, this]
  have h2 : exec fuel (.setI "jjmax" (.bin .min (.bin .add (.bin .add (.var "j") (.var "wky")) (.lit 1)) (.var "ny")))
        { s with ienv := setS s.ienv "jjmin" (j - (b : Int)) } =
      { s with ienv := setS (setS s.ienv "jjmin" (j - (b : Int))) "jjmax" (j + (b : Int) + 1) } := by
    have : ¬ ((ny : Int) < j + (b : Int) + 1) := by omega
    simp [exec, IE.ok, IE.eval, IOp.eval, setS, vj, hI.vwky, hI.vny, this]
  have h3 : exec fuel (.setF "num" (.lit 0 1))
        { s with ienv := setS (setS s.ienv "jjmin" (j - (b : Int))) "jjmax" (j + (b : Int) + 1) } =
      { s with ienv := setS (setS s.ienv "jjmin" (j - (b : Int))) "jjmax" (j + (b : Int) + 1),
               fenv := setS s.fenv "num" (Fl.lit 0 1) } := by
    simp [exec, FE.ok, FE.eval]
  have hK3 : Keeps ["jjmin", "jjmax", "ii", "iii", "jj", "jjj"] s
      { s with ienv := setS (setS s.ienv "jjmin" (j - (b : Int))) "jjmax" (j + (b : Int) + 1),
               fenv := setS s.fenv "num" (Fl.lit 0 1) } := by
    refine ⟨hI.ctl, rfl, fun _ _ => rfl, ?_⟩
    intro v hv
    simp only [List.mem_cons, List.mem_nil_iff, or_false, not_or] at hv
    simp only [setS, hv.1, hv.2.1, if_false]
  have hI3 := hI.keeps hK3 (by decide) (by decide) (by decide) (by decide)
  obtain ⟨hK4, hfa4, hnum4⟩ := conv_ii data kernel nx ny nkx nky a b fuel _ i j hI3 hnkx hnky hi0 hi1 hj0 hj1
    (by simp [setS, vi]) (by simp [setS, vj]) (by simp [setS, vimin]) (by simp [setS, vimax])
    (by simp [setS]) (by simp [setS])
  have hK4' := hK3.trans (hK4.mono (L' := ["jjmin", "jjmax", "ii", "iii", "jj", "jjj"]) (by simp))
  have hI4 := hI.keeps hK4' (by decide) (by decide) (by decide) (by decide)
  have h5 := exec_stF2_vars fuel "out" "i" "j" "num" _ nx ny i j hI4.sho
    (by rw [hK4'.ienv _ (by decide)]; exact vi) (by rw [hK4'.ienv _ (by decide)]; exact vj)
    (by omega) (by omega) (by omega) (by omega)
  have hr : r = exec fuel (.stF2 "out" (.var "i") (.var "j") (.var "num")) (exec fuel stII
      { s with ienv := setS (setS s.ienv "jjmin" (j - (b : Int))) "jjmax" (j + (b : Int) + 1),
               fenv := setS s.fenv "num" (Fl.lit 0 1) }) := by
    simp only [r, stCell]
    rw [exec_seq_eq fuel _ _ _ _ h1 hI.ctl, exec_seq_eq fuel _ _ _ _ h2 hI.ctl, exec_seq_eq fuel _ _ _ _ h3 hI.ctl,
      exec_seq_eq fuel _ _ _ _ rfl hK4.ctl]
  rw [hr, h5]
  refine ⟨⟨hK4'.ctl, hK4'.shp, ?_, hK4'.ienv⟩, ?_⟩
  · intro x hx
    simp only [setS, hx, if_false]
    exact hK4'.fa x hx
  · simp only [setS_same, hnum4, hfa4]

/-- the window sum of output cell `(i, j)` -/
abbrev cellVal (data kernel : List F) (ny nky a b : Nat) (i j : Int) : F :=
  convSum (listArr data ny) (listArr kernel nky) (2 * a + 1) (2 * b + 1) a b i j (Fl.lit 0 1)

/-- what the `j` loop does to `out` in row `i` -/
def rowFold (data kernel : List F) (ny nky a b : Nat) (i : Int) (out : List F) : List F :=
  (intRange (b : Int) ((ny : Int) - (b : Int))).foldl
    (fun o j => o.set (i.toNat * ny + j.toNat) (cellVal data kernel ny nky a b i j)) out

theorem intRange_eq (lo hi : Int) :
    (List.range (hi - lo).toNat).map (fun (k : Nat) => lo + (k : Int)) = intRange lo hi := rfl

/-- the `j` loop -/
theorem conv_j (data kernel : List F) (nx ny nkx nky a b : Nat) (fuel : Nat) (s : State F) (i : Int)
    (hI : CInv data kernel nx ny nkx nky a b s) (hnkx : 2 * a + 1 ≤ nkx) (hnky : 2 * b + 1 ≤ nky) (hi0 : (a : Int) ≤ i) (hi1 : i < (nx : Int) - a)
    (vi : s.ienv "i" = i) (vimin : s.ienv "iimin" = i - (a : Int)) (vimax : s.ienv "iimax" = i + (a : Int) + 1) :
    let r := exec fuel stJ s
    Keeps ["j", "jjmin", "jjmax", "ii", "iii", "jj", "jjj"] s r ∧
    r.fa "out" = rowFold data kernel ny nky a b i (s.fa "out") := by
  intro r
  have hr : r = loopOver (fun st x => exec fuel stCell { st with ienv := setS st.ienv "j" x })
      (intRange (b : Int) ((ny : Int) - (b : Int))) s := by
    simp only [r, stJ]
    rw [exec_forRange_step1 _ _ _ _ _ _ rfl rfl]
    simp only [IE.eval, IOp.eval, hI.vny, hI.vwky, intRange_eq]
  have h := loopOver_foldl (fun st x => exec fuel stCell { st with ienv := setS st.ienv "j" x })
    (intRange (b : Int) ((ny : Int) - (b : Int)))
    (fun st => Keeps ["j", "jjmin", "jjmax", "ii", "iii", "jj", "jjj"] s st) (fun st => st.fa "out")
    (fun o j => o.set (i.toNat * ny + j.toNat) (cellVal data kernel ny nky a b i j))
    (by
      intro st x hx hc hK
      have hx' := (mem_intRange' _ _ _).mp hx
      have hK1 : Keeps ["j", "jjmin", "jjmax", "ii", "iii", "jj", "jjj"] st { st with ienv := setS st.ienv "j" x } := by
        refine ⟨hc, rfl, fun _ _ => rfl, ?_⟩
        intro v hv
        simp only [List.mem_cons, List.mem_nil_iff, or_false, not_or] at hv
        simp only [setS, hv.1, if_false]
      have hK2 := hK.trans hK1
      have hI1 := hI.keeps hK2 (by decide) (by decide) (by decide) (by decide)
      obtain ⟨hc1, hc2⟩ := conv_cell data kernel nx ny nkx nky a b fuel _ i x hI1 hnkx hnky hi0 hi1 hx'.1 hx'.2
        (by rw [hK2.ienv _ (by decide)]; exact vi) (by simp)
        (by rw [hK2.ienv _ (by decide)]; exact vimin) (by rw [hK2.ienv _ (by decide)]; exact vimax)
      exact ⟨hc1.ctl, hK2.trans (hc1.mono (by simp)), hc2⟩)
    s hI.ctl (Keeps.refl _ s hI.ctl)
  rw [← hr] at h
  exact ⟨h.2.1, h.2.2⟩

/-- the body of the `i` loop: row `i` of `out` -/
theorem conv_row (data kernel : List F) (nx ny nkx nky a b : Nat) (fuel : Nat) (s : State F) (i : Int)
    (hI : CInv data kernel nx ny nkx nky a b s) (hnkx : 2 * a + 1 ≤ nkx) (hnky : 2 * b + 1 ≤ nky) (hi0 : (a : Int) ≤ i) (hi1 : i < (nx : Int) - a)
    (vi : s.ienv "i" = i) :
    let r := exec fuel stRow s
    Keeps ["iimin", "iimax", "j", "jjmin", "jjmax", "ii", "iii", "jj", "jjj"] s r ∧
    r.fa "out" = rowFold data kernel ny nky a b i (s.fa "out") := by
  intro r
  have h1 : exec fuel (.setI "iimin" (.bin .max (.bin .sub (.var "i") (.var "wkx")) (.lit 0))) s =
      { s with ienv := setS s.ienv "iimin" (i - (a : Int)) } := by
    have : ¬ (0 > i - (a : Int)) := by omega
    simp [exec, IE.ok, IE.eval, IOp.eval, vi, hI.vwkx, this]
  have h2 : exec fuel (.setI "iimax" (.bin .min (.bin .add (.bin .add (.var "i") (.var "wkx")) (.lit 1)) (.var "nx")))
        { s with ienv := setS s.ienv "iimin" (i - (a : Int)) } =
      { s with ienv := setS (setS s.ienv "iimin" (i - (a : Int))) "iimax" (i + (a : Int) + 1) } := by
    have : ¬ ((nx : Int) < i + (a : Int) + 1) := by omega
    simp [exec, IE.ok, IE.eval, IOp.eval, setS, vi, hI.vwkx, hI.vnx, this]
  have hK2 : Keeps ["iimin", "iimax", "j", "jjmin", "jjmax", "ii", "iii", "jj", "jjj"] s
      { s with ienv := setS (setS s.ienv "iimin" (i - (a : Int))) "iimax" (i + (a : Int) + 1) } := by
    refine ⟨hI.ctl, rfl, fun _ _ => rfl, ?_⟩
    intro v hv
    simp only [List.mem_cons, List.mem_nil_iff, or_false, not_or] at hv
    simp only [setS, hv.1, hv.2.1, if_false]
  have hI2 := hI.keeps hK2 (by decide) (by decide) (by decide) (by decide)
  obtain ⟨hK3, hout⟩ := conv_j data kernel nx ny nkx nky a b fuel _ i hI2 hnkx hnky hi0 hi1 (by simp [setS, vi]) (by simp [setS]) (by simp [setS])
  have hr : r = exec fuel stJ
      { s with ienv := setS (setS s.ienv "iimin" (i - (a : Int))) "iimax" (i + (a : Int) + 1) } := by
    simp only [r, stRow]
    rw [exec_seq_eq fuel _ _ _ _ h1 hI.ctl, exec_seq_eq fuel _ _ _ _ h2 hI.ctl]
  rw [hr]
  exact ⟨hK2.trans (hK3.mono (by simp)), hout⟩

/-- what the `i` loop does to `out` -/
def rowsFold (data kernel : List F) (nx ny nky a b : Nat) (out : List F) : List F :=
  (intRange (a : Int) ((nx : Int) - (a : Int))).foldl (fun o i => rowFold data kernel ny nky a b i o) out

/-- the `i` loop -/
theorem conv_rows (data kernel : List F) (nx ny nkx nky a b : Nat) (fuel : Nat) (s : State F)
    (hI : CInv data kernel nx ny nkx nky a b s) (hnkx : 2 * a + 1 ≤ nkx) (hnky : 2 * b + 1 ≤ nky) :
    let r := exec fuel stI s
    Keeps ["i", "iimin", "iimax", "j", "jjmin", "jjmax", "ii", "iii", "jj", "jjj"] s r ∧
    r.fa "out" = rowsFold data kernel nx ny nky a b (s.fa "out") := by
  intro r
  have hr : r = loopOver (fun st x => exec fuel stRow { st with ienv := setS st.ienv "i" x })
      (intRange (a : Int) ((nx : Int) - (a : Int))) s := by
    simp only [r, stI]
    rw [exec_forRange_step1 _ _ _ _ _ _ rfl rfl]
    simp only [IE.eval, IOp.eval, hI.vnx, hI.vwkx, intRange_eq]
  have h := loopOver_foldl (fun st x => exec fuel stRow { st with ienv := setS st.ienv "i" x })
    (intRange (a : Int) ((nx : Int) - (a : Int)))
    (fun st => Keeps ["i", "iimin", "iimax", "j", "jjmin", "jjmax", "ii", "iii", "jj", "jjj"] s st)
    (fun st => st.fa "out") (fun o i => rowFold data kernel ny nky a b i o)
    (by
      intro st x hx hc hK
      have hx' := (mem_intRange' _ _ _).mp hx
      have hK1 : Keeps ["i", "iimin", "iimax", "j", "jjmin", "jjmax", "ii", "iii", "jj", "jjj"] st
          { st with ienv := setS st.ienv "i" x } := by
        refine ⟨hc, rfl, fun _ _ => rfl, ?_⟩
        intro v hv
        simp only [List.mem_cons, List.mem_nil_iff, or_false, not_or] at hv
        simp only [setS, hv.1, if_false]
      have hK2 := hK.trans hK1
      have hI1 := hI.keeps hK2 (by decide) (by decide) (by decide) (by decide)
      obtain ⟨hc1, hc2⟩ := conv_row data kernel nx ny nkx nky a b fuel _ x hI1 hnkx hnky hx'.1 hx'.2 (by simp)
      exact ⟨hc1.ctl, hK2.trans (hc1.mono (by simp)), hc2⟩)
    s hI.ctl (Keeps.refl _ s hI.ctl)
  rw [← hr] at h
  exact ⟨h.2.1, h.2.2⟩

/-! ### folds of array stores as a pointwise description -/

theorem foldl_set_length {α β : Type} (xs : List α) (idx : α → Nat) (v : α → β) (out : List β) :
    (xs.foldl (fun o x => o.set (idx x) (v x)) out).length = out.length := by
  induction xs generalizing out with
  | nil => rfl
  | cons x xs ih => simp only [List.foldl_cons, ih, List.length_set]

/-- no store hits position `t` -/
theorem foldl_set_miss {α β : Type} (xs : List α) (idx : α → Nat) (v : α → β) (out : List β) (t : Nat)
    (h : ∀ x ∈ xs, idx x ≠ t) : (xs.foldl (fun o x => o.set (idx x) (v x)) out)[t]? = out[t]? := by
  induction xs generalizing out with
  | nil => rfl
  | cons x xs ih =>
    simp only [List.foldl_cons]
    rw [ih _ (fun y hy => h y (by simp [hy])), List.getElem?_set_ne (h x (by simp))]

/-- some store hits position `t`, and all that do write `w` -/
theorem foldl_set_hit {α β : Type} (xs : List α) (idx : α → Nat) (v : α → β) (out : List β) (t : Nat) (w : β)
    (hw : ∀ x ∈ xs, idx x = t → v x = w) (hex : ∃ x ∈ xs, idx x = t) (ht : t < out.length) :
    (xs.foldl (fun o x => o.set (idx x) (v x)) out)[t]? = some w := by
  induction xs generalizing out with
  | nil => obtain ⟨x, hx, _⟩ := hex; cases hx
  | cons x xs ih =>
    simp only [List.foldl_cons]
    by_cases hmore : ∃ y ∈ xs, idx y = t
    · exact ih _ (fun y hy => hw y (by simp [hy])) hmore (by simpa using ht)
    · have hmiss : ∀ y ∈ xs, idx y ≠ t := fun y hy he => hmore ⟨y, hy, he⟩
      rw [foldl_set_miss _ _ _ _ _ hmiss]
      obtain ⟨y, hy, hyt⟩ := hex
      have hxt : idx x = t := by
        rcases List.mem_cons.mp hy with rfl | hy'
        · exact hyt
        · exact absurd hyt (hmiss y hy')
      rw [hxt, List.getElem?_set_self ht, hw x (by simp) hxt]

theorem idx_inj (i j p q n : Nat) (hj : j < n) (hq : q < n) (h : i * n + j = p * n + q) : i = p ∧ j = q := by
  have hn : 0 < n := by omega
  have h1 : (i * n + j) / n = i := by
    rw [Nat.mul_comm, Nat.mul_add_div hn, Nat.div_eq_of_lt hj, Nat.add_zero]
  have h2 : (p * n + q) / n = p := by
    rw [Nat.mul_comm, Nat.mul_add_div hn, Nat.div_eq_of_lt hq, Nat.add_zero]
  have hip : i = p := by rw [← h1, ← h2, h]
  subst hip
  exact ⟨rfl, by omega⟩

theorem allCells_succ (r c : Nat) :
    allCells (r + 1) c = allCells r c ++ (List.range c).map (fun (x : Nat) => ((r : Int), (x : Int))) := by
  unfold allCells
  rw [List.range_succ, List.flatMap_append]
  simp

theorem allCells_length (r c : Nat) : (allCells r c).length = r * c := by
  induction r with
  | zero => simp [allCells]
  | succ r ih => rw [allCells_succ, List.length_append, ih, List.length_map, List.length_range, Nat.succ_mul]

theorem allCells_getElem? (r c p q : Nat) (hp : p < r) (hq : q < c) :
    (allCells r c)[p * c + q]? = some ((p : Int), (q : Int)) := by
  induction r with
  | zero => omega
  | succ r ih =>
    rw [allCells_succ]
    by_cases h : p < r
    · have : p * c + q < (allCells r c).length := by
        rw [allCells_length]
        calc p * c + q < p * c + c := by omega
          _ = (p + 1) * c := by rw [Nat.succ_mul]
          _ ≤ r * c := Nat.mul_le_mul_right c h
      rw [List.getElem?_append_left this]
      exact ih h
    · have hpr : p = r := by omega
      subst hpr
      rw [List.getElem?_append_right (by rw [allCells_length]; omega), allCells_length]
      simp [hq]

/-- **specification of the output**, row-major: NaN on the border of width `(a, b)` (everywhere, when the kernel
    is larger than the raster), the window sum `cellVal` at the interior cells -/
def convOut (data kernel : List F) (nx ny a b : Nat) : List F :=
  (allCells nx ny).map fun c =>
    if (a : Int) ≤ c.1 ∧ c.1 < (nx : Int) - (a : Int) ∧ (b : Int) ≤ c.2 ∧ c.2 < (ny : Int) - (b : Int)
    then cellVal data kernel ny (2 * b + 1) a b c.1 c.2 else Fl.nan

theorem rowsFold_flat (data kernel : List F) (nx ny nky a b : Nat) (out : List F) :
    rowsFold data kernel nx ny nky a b out =
      ((intRange (a : Int) ((nx : Int) - (a : Int))).flatMap fun i =>
        (intRange (b : Int) ((ny : Int) - (b : Int))).map fun j => (i, j)).foldl
        (fun o (p : Int × Int) => o.set (p.1.toNat * ny + p.2.toNat) (cellVal data kernel ny nky a b p.1 p.2)) out := by
  unfold rowsFold rowFold
  rw [List.foldl_flatMap]
  congr 1
  funext o i
  rw [List.foldl_map]

/-- the stores of the two outer loops on the NaN-filled array give the specified output -/
theorem rowsFold_replicate (data kernel : List F) (nx ny a b : Nat) :
    rowsFold data kernel nx ny (2 * b + 1) a b (List.replicate (nx * ny) Fl.nan) = convOut data kernel nx ny a b := by
  rw [rowsFold_flat]
  apply List.ext_getElem?
  intro t
  by_cases ht : t < nx * ny
  · have hny : 0 < ny := by
      rcases Nat.eq_zero_or_pos ny with h | h
      · subst h; simp at ht
      · exact h
    have hq : t % ny < ny := Nat.mod_lt _ hny
    have hp : t / ny < nx := Nat.div_lt_of_lt_mul (by rw [Nat.mul_comm]; exact ht)
    have htd : t = (t / ny) * ny + t % ny := by rw [Nat.mul_comm]; exact (Nat.div_add_mod t ny).symm
    have hR : (convOut data kernel nx ny a b)[t]? = some
        (if (a : Int) ≤ ((t / ny : Nat) : Int) ∧ ((t / ny : Nat) : Int) < (nx : Int) - (a : Int) ∧
            (b : Int) ≤ ((t % ny : Nat) : Int) ∧ ((t % ny : Nat) : Int) < (ny : Int) - (b : Int)
         then cellVal data kernel ny (2 * b + 1) a b ((t / ny : Nat) : Int) ((t % ny : Nat) : Int) else Fl.nan) := by
      unfold convOut
      rw [List.getElem?_map]
      conv => lhs; rw [htd]
      rw [allCells_getElem? nx ny _ _ hp hq]
      rfl
    rw [hR]
    by_cases hin : (a : Int) ≤ ((t / ny : Nat) : Int) ∧ ((t / ny : Nat) : Int) < (nx : Int) - (a : Int) ∧
            (b : Int) ≤ ((t % ny : Nat) : Int) ∧ ((t % ny : Nat) : Int) < (ny : Int) - (b : Int)
    · rw [if_pos hin]
      apply foldl_set_hit
      · intro x hx hxt
        obtain ⟨i, hi, hx⟩ := List.mem_flatMap.mp hx
        obtain ⟨j, hj, rfl⟩ := List.mem_map.mp hx
        have hi' := (mem_intRange' _ _ _).mp hi
        have hj' := (mem_intRange' _ _ _).mp hj
        simp only at hxt
        have := idx_inj i.toNat j.toNat (t / ny) (t % ny) ny (by omega) hq (by rw [hxt]; exact htd)
        have e1 : i = ((t / ny : Nat) : Int) := by omega
        have e2 : j = ((t % ny : Nat) : Int) := by omega
        simp only [e1, e2]
      · refine ⟨(((t / ny : Nat) : Int), ((t % ny : Nat) : Int)), ?_, ?_⟩
        · apply List.mem_flatMap.mpr
          refine ⟨((t / ny : Nat) : Int), (mem_intRange' _ _ _).mpr ⟨hin.1, hin.2.1⟩, ?_⟩
          exact List.mem_map.mpr ⟨((t % ny : Nat) : Int), (mem_intRange' _ _ _).mpr ⟨hin.2.2.1, hin.2.2.2⟩, rfl⟩
        · simp only [Int.toNat_natCast]
          exact htd.symm
      · simpa using ht
    · rw [if_neg hin, foldl_set_miss]
      · simp [ht]
      · intro x hx hxt
        obtain ⟨i, hi, hx⟩ := List.mem_flatMap.mp hx
        obtain ⟨j, hj, rfl⟩ := List.mem_map.mp hx
        have hi' := (mem_intRange' _ _ _).mp hi
        have hj' := (mem_intRange' _ _ _).mp hj
        simp only at hxt
        have := idx_inj i.toNat j.toNat (t / ny) (t % ny) ny (by omega) hq (by rw [hxt]; exact htd)
        apply hin
        omega
  · have h1 : (convOut data kernel nx ny a b).length = nx * ny := by
      unfold convOut; rw [List.length_map, allCells_length]
    rw [List.getElem?_eq_none (by rw [foldl_set_length]; simpa using ht), List.getElem?_eq_none (by omega)]

/-! ### the whole program -/

/-- well-formed inputs of `_convolve_2d_numpy`: a 2-D raster and a 2-D kernel -/
structure ConvInput (data kernel : List F) (nx ny nkx nky : Nat) (s : State F) : Prop where
  ctl : s.ctl = .run
  shd : s.shp "data" = [nx, ny]
  shk : s.shp "kernel" = [nkx, nky]
  fad : s.fa "data" = data
  fak : s.fa "kernel" = kernel

/-- the state in which the outer loop is entered: sizes, half widths (floor division), `out` allocated and
    NaN-filled -/
def convStart (s : State F) (nx ny nkx nky : Nat) : State F :=
  { s with
    ienv := setS (setS (setS (setS (setS (setS s.ienv "nx" (nx : Int)) "ny" (ny : Int)) "nkx" (nkx : Int)) "nky" (nky : Int))
              "wkx" ((nkx / 2 : Nat) : Int)) "wky" ((nky / 2 : Nat) : Int),
    shp := setS s.shp "out" [nx, ny],
    fa := setS s.fa "out" (List.replicate (nx * ny) Fl.nan) }

theorem conv_body_eq : Gen.IL.convolve2d.body =
    .seq (.setI "nx" (.dim "data" 0))
    (.seq (.setI "ny" (.dim "data" 1))
    (.seq (.setI "nkx" (.dim "kernel" 0))
    (.seq (.setI "nky" (.dim "kernel" 1))
    (.seq (.setI "wkx" (.bin .fdiv (.var "nkx") (.lit 2)))
    (.seq (.setI "wky" (.bin .fdiv (.var "nky") (.lit 2)))
    (.seq (.allocF "out" [(.dim "data" 0), (.dim "data" 1)] (.lit 0 1))
    (.seq (.allocF "out" [(.dim "out" 0), (.dim "out" 1)] .nan)
    (.seq stI .ret)))))))) := rfl

theorem fdiv_two (n : Nat) : Int.fdiv (n : Int) 2 = ((n / 2 : Nat) : Int) := by
  rw [Int.fdiv_eq_ediv_of_nonneg _ (by decide)]
  omega

/-- the straight-line prefix (sizes, half widths, allocation and NaN fill), any kernel shape -/
theorem conv_prefix (data kernel : List F) (nx ny nkx nky : Nat) (fuel : Nat) (s : State F)
    (hin : ConvInput data kernel nx ny nkx nky s) (rest : St) :
    exec fuel
      (.seq (.setI "nx" (.dim "data" 0))
      (.seq (.setI "ny" (.dim "data" 1))
      (.seq (.setI "nkx" (.dim "kernel" 0))
      (.seq (.setI "nky" (.dim "kernel" 1))
      (.seq (.setI "wkx" (.bin .fdiv (.var "nkx") (.lit 2)))
      (.seq (.setI "wky" (.bin .fdiv (.var "nky") (.lit 2)))
      (.seq (.allocF "out" [(.dim "data" 0), (.dim "data" 1)] (.lit 0 1))
      (.seq (.allocF "out" [(.dim "out" 0), (.dim "out" 1)] .nan)
      rest)))))))) s = exec fuel rest (convStart s nx ny nkx nky) := by
  rw [exec_seq_eq fuel _ _ s { s with ienv := setS s.ienv "nx" (nx : Int) }
        (by simp [exec, IE.ok, IE.eval, hin.shd]) hin.ctl]
  rw [exec_seq_eq fuel _ _ _ { s with ienv := setS (setS s.ienv "nx" (nx : Int)) "ny" (ny : Int) }
        (by simp [exec, IE.ok, IE.eval, hin.shd]) hin.ctl]
  rw [exec_seq_eq fuel _ _ _ { s with ienv := setS (setS (setS s.ienv "nx" (nx : Int)) "ny" (ny : Int)) "nkx" (nkx : Int) }
        (by simp [exec, IE.ok, IE.eval, hin.shk]) hin.ctl]
  rw [exec_seq_eq fuel _ _ _ { s with ienv := setS (setS (setS (setS s.ienv "nx" (nx : Int)) "ny" (ny : Int)) "nkx" (nkx : Int)) "nky" (nky : Int) }
        (by simp [exec, IE.ok, IE.eval, hin.shk]) hin.ctl]
  rw [exec_seq_eq fuel _ _ _ { s with ienv := setS (setS (setS (setS (setS s.ienv "nx" (nx : Int)) "ny" (ny : Int)) "nkx" (nkx : Int)) "nky" (nky : Int)) "wkx" ((nkx / 2 : Nat) : Int) }
        (by simp [exec, IE.ok, IE.eval, IOp.eval, setS, fdiv_two]) hin.ctl]
  rw [exec_seq_eq fuel _ _ _ { s with ienv := setS (setS (setS (setS (setS (setS s.ienv "nx" (nx : Int)) "ny" (ny : Int)) "nkx" (nkx : Int)) "nky" (nky : Int)) "wkx" ((nkx / 2 : Nat) : Int)) "wky" ((nky / 2 : Nat) : Int) }
        (by simp [exec, IE.ok, IE.eval, IOp.eval, setS, fdiv_two]) hin.ctl]
  rw [exec_seq_eq fuel _ _ _ { s with
          ienv := setS (setS (setS (setS (setS (setS s.ienv "nx" (nx : Int)) "ny" (ny : Int)) "nkx" (nkx : Int)) "nky" (nky : Int)) "wkx" ((nkx / 2 : Nat) : Int)) "wky" ((nky / 2 : Nat) : Int),
          shp := setS s.shp "out" [nx, ny],
          fa := setS s.fa "out" (List.replicate (nx * ny) (Fl.lit 0 1)) }
        (by simp [exec, IE.ok, IE.eval, FE.ok, FE.eval, hin.shd]) hin.ctl]
  rw [exec_seq_eq fuel _ _ _ (convStart s nx ny nkx nky)
        (by simp [exec, IE.ok, IE.eval, FE.ok, FE.eval, convStart, setS_setS]) hin.ctl]

theorem convStart_inv (data kernel : List F) (nx ny a b : Nat) (s : State F)
    (hin : ConvInput data kernel nx ny (2 * a + 1) (2 * b + 1) s) :
    CInv data kernel nx ny (2 * a + 1) (2 * b + 1) a b (convStart s nx ny (2 * a + 1) (2 * b + 1)) := by
  have ha : (2 * a + 1) / 2 = a := by omega
  have hb : (2 * b + 1) / 2 = b := by omega
  exact ⟨hin.ctl, by simp [convStart, setS, hin.shd], by simp [convStart, setS, hin.shk], by simp [convStart],
    by simp [convStart, setS, hin.fad], by simp [convStart, setS, hin.fak], by simp [convStart, setS],
    by simp [convStart, setS], by simp [convStart, setS, ha], by simp [convStart, setS, hb]⟩

/-- **refinement.** the program generated from `_convolve_2d_numpy`, run on any raster and any kernel of odd shape
    `(2a+1) × (2b+1)`, ends with `return`, never reads or writes out of range, leaves its inputs unchanged, and its
    output array is `convOut`: NaN on the border of width `(a, b)`, the window sum (in the program's order) inside -/
theorem convolve2d_refines (data kernel : List F) (nx ny a b : Nat) (s : State F) (fuel : Nat)
    (hin : ConvInput data kernel nx ny (2 * a + 1) (2 * b + 1) s) :
    let r := Gen.IL.convolve2d.run s fuel
    r.ctl = .ret ∧ r.shp "out" = [nx, ny] ∧ r.fa "data" = data ∧ r.fa "kernel" = kernel ∧
    r.fa "out" = convOut data kernel nx ny a b := by
  simp only [Prog.run, conv_body_eq]
  rw [conv_prefix data kernel nx ny (2 * a + 1) (2 * b + 1) fuel s hin]
  have hI := convStart_inv data kernel nx ny a b s hin
  obtain ⟨hK, hout⟩ := conv_rows data kernel nx ny (2 * a + 1) (2 * b + 1) a b fuel _ hI (Nat.le_refl _) (Nat.le_refl _)
  rw [exec_seq_eq fuel _ _ _ _ rfl hK.ctl]
  simp only [exec]
  have hI' := hI.keeps hK (by decide) (by decide) (by decide) (by decide)
  refine ⟨trivial, hI'.sho, hI'.fad, hI'.fak, ?_⟩
  rw [hout]
  simp only [convStart, setS_same]
  exact rowsFold_replicate data kernel nx ny a b

/-- cell `(p, q)` of the model's row-major output -/
theorem convolve_getElem? (D K : Arr F) (nx ny nkx nky p q : Nat) (hp : p < nx) (hq : q < ny) :
    (convolve D K nx ny nkx nky)[p * ny + q]? = some (convCell D K nx ny nkx nky (p : Int) (q : Int)) := by
  unfold convolve
  rw [List.getElem?_map, allCells_getElem? nx ny p q hp hq]
  rfl

/-! ### kernels with an even side: the program reads `kernel` out of range

  With half widths `a = nkx // 2`, `b = nky // 2` the inner loops visit kernel rows `0 … 2a` and columns `0 … 2b`; for an
  even side `2a = nkx` (or `2b = nky`) the last one does not exist.  numba performs no bounds check there (the read is
  undefined behaviour); ILang stops with `Ctl.err "index"`.  The public `convolution_2d` / `focal` wrappers reject
  such kernels (`custom_kernel`, C09 `kernel_validation`). -/

/-- the `jj` loop stops with an index error when the kernel row `k` does not exist or the kernel has fewer than
    `2b + 1` columns -/
theorem conv_jj_err (data kernel : List F) (nx ny nkx nky a b : Nat) (fuel : Nat) (s : State F) (k : Nat) (ii j : Int)
    (hI : CInv data kernel nx ny nkx nky a b s) (hbad : nkx ≤ k ∨ nky ≤ 2 * b)
    (hii0 : 0 ≤ ii) (hii1 : ii < nx) (hj0 : (b : Int) ≤ j) (hj1 : j < (ny : Int) - b)
    (viii : s.ienv "iii" = k) (vii : s.ienv "ii" = ii) (vj : s.ienv "j" = j)
    (vmin : s.ienv "jjmin" = j - (b : Int)) (vmax : s.ienv "jjmax" = j + (b : Int) + 1) :
    (exec fuel stJJ s).ctl = .err "index" := by
  have hr : exec fuel stJJ s = loopOver (fun st i => exec fuel stJJBody { st with ienv := setS st.ienv "jj" i })
      ((List.range (2 * b + 1)).map (fun (l : Nat) => j - (b : Int) + (l : Int))) s := by
    simp only [stJJ]
    rw [exec_forRange_step1 _ _ _ _ _ _ rfl rfl]
    simp only [IE.eval, vmin, vmax]
    have : (j + (b : Int) + 1 - (j - (b : Int))).toNat = 2 * b + 1 := by omega
    rw [this]
  rw [hr]
  -- the first failing column
  have hm : (if k < nkx then nky else 0) < 2 * b + 1 := by
    split
    · rcases hbad with h | h <;> omega
    · omega
  apply loopOver_err _ _ (fun st => Keeps ["jj", "jjj"] s st) "index" (if k < nkx then nky else 0)
    (by simpa using hm) _ _ s hI.ctl (Keeps.refl _ s hI.ctl)
  · intro st l hl hc hK
    have hk : k < nkx := by
      rcases Nat.lt_or_ge k nkx with h | h
      · exact h
      · simp [Nat.not_lt.mpr h] at hl
    simp only [hk, if_true] at hl
    simp only [List.getElem_map, List.getElem_range]
    have hI' := hI.keeps hK (by decide) (by decide) (by decide) (by decide)
    rw [conv_jj_body data kernel nx ny nkx nky a b fuel st k l ii j hI' hk hl (by omega) hii0 hii1 hj0 hj1
      (by rw [hK.ienv _ (by decide)]; exact viii) (by rw [hK.ienv _ (by decide)]; exact vii)
      (by rw [hK.ienv _ (by decide)]; exact vj)]
    refine ⟨hc, ⟨hc, hK.shp, hK.fa, ?_⟩⟩
    intro v hv
    simp only [List.mem_cons, List.mem_nil_iff, or_false, not_or] at hv
    simp only [setS, hv.1, hv.2, if_false]
    exact hK.ienv v (by simp [hv.1, hv.2])
  · intro st hc hK
    simp only [List.getElem_map, List.getElem_range]
    have hI' := hI.keeps hK (by decide) (by decide) (by decide) (by decide)
    have hbad' : inRange (k : Int) nkx = false ∨
        inRange ((if k < nkx then nky else 0 : Nat) : Int) nky = false := by
      rcases Nat.lt_or_ge k nkx with h | h
      · right; simp only [h, if_true]; exact inRange_ge _ _ (Int.le_refl _)
      · left; exact inRange_ge _ _ (by omega)
    have e1 : (b : Int) + (j - (b : Int) + ((if k < nkx then nky else 0 : Nat) : Int)) - j
        = ((if k < nkx then nky else 0 : Nat) : Int) := by omega
    have v1 : st.ienv "iii" = k := by rw [hK.ienv _ (by decide)]; exact viii
    have v3 : st.ienv "j" = j := by rw [hK.ienv _ (by decide)]; exact vj
    rcases hbad' with h | h <;>
      simp [stJJBody, exec, IE.ok, IE.eval, IOp.eval, FE.ok, setS, hI'.shk, hI'.vwky, v1, v3, e1, h, hc, State.error]

/-- the `ii` loop stops with an index error when the kernel has fewer than `2a + 1` rows or `2b + 1` columns -/
theorem conv_ii_err (data kernel : List F) (nx ny nkx nky a b : Nat) (fuel : Nat) (s : State F) (i j : Int)
    (hI : CInv data kernel nx ny nkx nky a b s) (hbad : nkx ≤ 2 * a ∨ nky ≤ 2 * b)
    (hi0 : (a : Int) ≤ i) (hi1 : i < (nx : Int) - a) (hj0 : (b : Int) ≤ j) (hj1 : j < (ny : Int) - b)
    (vi : s.ienv "i" = i) (vj : s.ienv "j" = j)
    (vimin : s.ienv "iimin" = i - (a : Int)) (vimax : s.ienv "iimax" = i + (a : Int) + 1)
    (vmin : s.ienv "jjmin" = j - (b : Int)) (vmax : s.ienv "jjmax" = j + (b : Int) + 1) :
    (exec fuel stII s).ctl = .err "index" := by
  have hr : exec fuel stII s = loopOver (fun st x => exec fuel stIIBody { st with ienv := setS st.ienv "ii" x })
      ((List.range (2 * a + 1)).map (fun (k : Nat) => i - (a : Int) + (k : Int))) s := by
    simp only [stII]
    rw [exec_forRange_step1 _ _ _ _ _ _ rfl rfl]
    simp only [IE.eval, vimin, vimax]
    have : (i + (a : Int) + 1 - (i - (a : Int))).toNat = 2 * a + 1 := by omega
    rw [this]
  rw [hr]
  have hm : (if nky ≤ 2 * b then 0 else nkx) < 2 * a + 1 := by
    split
    · omega
    · rcases hbad with h | h <;> omega
  -- what one row does to the state before the `jj` loop
  have hrow : ∀ (st : State F) (k : Nat), st.ctl = .run → Keeps ["ii", "iii", "jj", "jjj"] s st → k < 2 * a + 1 →
      ∃ s1 : State F, exec fuel stIIBody { st with ienv := setS st.ienv "ii" (i - (a : Int) + (k : Int)) } = exec fuel stJJ s1 ∧
        Keeps ["ii", "iii", "jj", "jjj"] s s1 ∧ s1.ienv "iii" = k ∧ s1.ienv "ii" = i - (a : Int) + (k : Int) := by
    intro st k hc hK hk
    have hI' := hI.keeps hK (by decide) (by decide) (by decide) (by decide)
    have e1 : (a : Int) + (i - (a : Int) + (k : Int)) - i = (k : Int) := by omega
    have hs1 : exec fuel (.setI "iii" (.bin .sub (.bin .add (.var "wkx") (.var "ii")) (.var "i")))
          { st with ienv := setS st.ienv "ii" (i - (a : Int) + (k : Int)) }
        = { st with ienv := setS (setS st.ienv "ii" (i - (a : Int) + (k : Int))) "iii" (k : Int) } := by
      simp [exec, IE.ok, IE.eval, IOp.eval, setS, hI'.vwkx, hK.ienv "i" (by decide), vi, e1]
    have hK1 : Keeps ["ii", "iii", "jj", "jjj"] st
        { st with ienv := setS (setS st.ienv "ii" (i - (a : Int) + (k : Int))) "iii" (k : Int) } := by
      refine ⟨hc, rfl, fun _ _ => rfl, ?_⟩
      intro v hv
      simp only [List.mem_cons, List.mem_nil_iff, or_false, not_or] at hv
      simp only [setS, hv.1, hv.2.1, if_false]
    refine ⟨_, ?_, hK.trans hK1, by simp, by simp [setS]⟩
    simp only [stIIBody]
    rw [exec_seq_eq fuel _ _ _ _ hs1 hc]
  apply loopOver_err _ _ (fun st => Keeps ["ii", "iii", "jj", "jjj"] s st) "index" (if nky ≤ 2 * b then 0 else nkx)
    (by simpa using hm) _ _ s hI.ctl (Keeps.refl _ s hI.ctl)
  · intro st k hk hc hK
    have hnky : 2 * b + 1 ≤ nky := by
      rcases Nat.lt_or_ge (2 * b) nky with h | h
      · exact h
      · simp [h] at hk
    have hk' : k < nkx := by
      have : ¬ nky ≤ 2 * b := by omega
      simpa [this] using hk
    simp only [List.getElem_map, List.getElem_range]
    obtain ⟨s1, he, hK1, v1, v2⟩ := hrow st k hc hK (by omega)
    have hI1 := hI.keeps hK1 (by decide) (by decide) (by decide) (by decide)
    obtain ⟨hj1', _, _⟩ := conv_jj data kernel nx ny nkx nky a b fuel s1 k (i - (a : Int) + (k : Int)) j hI1 hk' hnky
      (by omega) (by omega) hj0 hj1 v1 v2
      (by rw [hK1.ienv _ (by decide)]; exact vj) (by rw [hK1.ienv _ (by decide)]; exact vmin)
      (by rw [hK1.ienv _ (by decide)]; exact vmax)
    rw [he]
    exact ⟨hj1'.ctl, hK1.trans (hj1'.mono (by simp))⟩
  · intro st hc hK
    simp only [List.getElem_map, List.getElem_range]
    obtain ⟨s1, he, hK1, v1, v2⟩ := hrow st (if nky ≤ 2 * b then 0 else nkx) hc hK hm
    have hI1 := hI.keeps hK1 (by decide) (by decide) (by decide) (by decide)
    rw [he]
    apply conv_jj_err data kernel nx ny nkx nky a b fuel s1 (if nky ≤ 2 * b then 0 else nkx)
      (i - (a : Int) + ((if nky ≤ 2 * b then 0 else nkx : Nat) : Int)) j hI1 _ (by omega) (by omega) hj0 hj1 v1 v2
      (by rw [hK1.ienv _ (by decide)]; exact vj) (by rw [hK1.ienv _ (by decide)]; exact vmin)
      (by rw [hK1.ienv _ (by decide)]; exact vmax)
    by_cases h : nky ≤ 2 * b
    · exact Or.inr h
    · left; simp [h]

/-- the assignments in front of the `ii` loop -/
theorem conv_cell_pre (data kernel : List F) (nx ny nkx nky a b : Nat) (fuel : Nat) (s : State F) (j : Int)
    (hI : CInv data kernel nx ny nkx nky a b s) (hj0 : (b : Int) ≤ j) (hj1 : j < (ny : Int) - b)
    (vj : s.ienv "j" = j) :
    ∃ s3 : State F, exec fuel stCell s = exec fuel (.seq stII (.stF2 "out" (.var "i") (.var "j") (.var "num"))) s3 ∧
      Keeps ["jjmin", "jjmax"] s s3 ∧ s3.ienv "jjmin" = j - (b : Int) ∧ s3.ienv "jjmax" = j + (b : Int) + 1 := by
  have h1 : exec fuel (.setI "jjmin" (.bin .max (.bin .sub (.var "j") (.var "wky")) (.lit 0))) s =
      { s with ienv := setS s.ienv "jjmin" (j - (b : Int)) } := by
    have : ¬ (0 > j - (b : Int)) := by omega
    simp [exec, IE.ok, IE.eval, IOp.eval, vj, hI.vwky, this]
  have h2 : exec fuel (.setI "jjmax" (.bin .min (.bin .add (.bin .add (.var "j") (.var "wky")) (.lit 1)) (.var "ny")))
        { s with ienv := setS s.ienv "jjmin" (j - (b : Int)) } =
      { s with ienv := setS (setS s.ienv "jjmin" (j - (b : Int))) "jjmax" (j + (b : Int) + 1) } := by
    have : ¬ ((ny : Int) < j + (b : Int) + 1) := by omega
    simp [exec, IE.ok, IE.eval, IOp.eval, setS, vj, hI.vwky, hI.vny, this]
  have h3 : exec fuel (.setF "num" (.lit 0 1))
        { s with ienv := setS (setS s.ienv "jjmin" (j - (b : Int))) "jjmax" (j + (b : Int) + 1) } =
      { s with ienv := setS (setS s.ienv "jjmin" (j - (b : Int))) "jjmax" (j + (b : Int) + 1),
               fenv := setS s.fenv "num" (Fl.lit 0 1) } := by
    simp [exec, FE.ok, FE.eval]
  refine ⟨{ s with ienv := setS (setS s.ienv "jjmin" (j - (b : Int))) "jjmax" (j + (b : Int) + 1),
                   fenv := setS s.fenv "num" (Fl.lit 0 1) }, ?_, ⟨hI.ctl, rfl, fun _ _ => rfl, ?_⟩, by simp [setS], by simp⟩
  · simp only [stCell]
    rw [exec_seq_eq fuel _ _ _ _ h1 hI.ctl, exec_seq_eq fuel _ _ _ _ h2 hI.ctl, exec_seq_eq fuel _ _ _ _ h3 hI.ctl]
  · intro v hv
    simp only [List.mem_cons, List.mem_nil_iff, or_false, not_or] at hv
    simp only [setS, hv.1, hv.2, if_false]

theorem conv_cell_err (data kernel : List F) (nx ny nkx nky a b : Nat) (fuel : Nat) (s : State F) (i j : Int)
    (hI : CInv data kernel nx ny nkx nky a b s) (hbad : nkx ≤ 2 * a ∨ nky ≤ 2 * b)
    (hi0 : (a : Int) ≤ i) (hi1 : i < (nx : Int) - a) (hj0 : (b : Int) ≤ j) (hj1 : j < (ny : Int) - b)
    (vi : s.ienv "i" = i) (vj : s.ienv "j" = j)
    (vimin : s.ienv "iimin" = i - (a : Int)) (vimax : s.ienv "iimax" = i + (a : Int) + 1) :
    (exec fuel stCell s).ctl = .err "index" := by
  obtain ⟨s3, he, hK3, v1, v2⟩ := conv_cell_pre data kernel nx ny nkx nky a b fuel s j hI hj0 hj1 vj
  have hI3 := hI.keeps hK3 (by decide) (by decide) (by decide) (by decide)
  have herr := conv_ii_err data kernel nx ny nkx nky a b fuel s3 i j hI3 hbad hi0 hi1 hj0 hj1
    (by rw [hK3.ienv _ (by decide)]; exact vi) (by rw [hK3.ienv _ (by decide)]; exact vj)
    (by rw [hK3.ienv _ (by decide)]; exact vimin) (by rw [hK3.ienv _ (by decide)]; exact vimax) v1 v2
  rw [he, exec_seq_stop fuel _ _ _ (by rw [herr]; simp)]
  exact herr

/-- the assignments in front of the `j` loop -/
theorem conv_row_pre (data kernel : List F) (nx ny nkx nky a b : Nat) (fuel : Nat) (s : State F) (i : Int)
    (hI : CInv data kernel nx ny nkx nky a b s) (hi0 : (a : Int) ≤ i) (hi1 : i < (nx : Int) - a)
    (vi : s.ienv "i" = i) :
    ∃ s2 : State F, exec fuel stRow s = exec fuel stJ s2 ∧
      Keeps ["iimin", "iimax"] s s2 ∧ s2.ienv "iimin" = i - (a : Int) ∧ s2.ienv "iimax" = i + (a : Int) + 1 := by
  have h1 : exec fuel (.setI "iimin" (.bin .max (.bin .sub (.var "i") (.var "wkx")) (.lit 0))) s =
      { s with ienv := setS s.ienv "iimin" (i - (a : Int)) } := by
    have : ¬ (0 > i - (a : Int)) := by omega
    simp [exec, IE.ok, IE.eval, IOp.eval, vi, hI.vwkx, this]
  have h2 : exec fuel (.setI "iimax" (.bin .min (.bin .add (.bin .add (.var "i") (.var "wkx")) (.lit 1)) (.var "nx")))
        { s with ienv := setS s.ienv "iimin" (i - (a : Int)) } =
      { s with ienv := setS (setS s.ienv "iimin" (i - (a : Int))) "iimax" (i + (a : Int) + 1) } := by
    have : ¬ ((nx : Int) < i + (a : Int) + 1) := by omega
    simp [exec, IE.ok, IE.eval, IOp.eval, setS, vi, hI.vwkx, hI.vnx, this]
  refine ⟨{ s with ienv := setS (setS s.ienv "iimin" (i - (a : Int))) "iimax" (i + (a : Int) + 1) }, ?_,
    ⟨hI.ctl, rfl, fun _ _ => rfl, ?_⟩, by simp [setS], by simp⟩
  · simp only [stRow]
    rw [exec_seq_eq fuel _ _ _ _ h1 hI.ctl, exec_seq_eq fuel _ _ _ _ h2 hI.ctl]
  · intro v hv
    simp only [List.mem_cons, List.mem_nil_iff, or_false, not_or] at hv
    simp only [setS, hv.1, hv.2, if_false]

/-- the `j` loop stops at its first cell (there is one: `b < ny - b`) -/
theorem conv_j_err (data kernel : List F) (nx ny nkx nky a b : Nat) (fuel : Nat) (s : State F) (i : Int)
    (hI : CInv data kernel nx ny nkx nky a b s) (hbad : nkx ≤ 2 * a ∨ nky ≤ 2 * b) (hvis : 2 * b < ny)
    (hi0 : (a : Int) ≤ i) (hi1 : i < (nx : Int) - a)
    (vi : s.ienv "i" = i) (vimin : s.ienv "iimin" = i - (a : Int)) (vimax : s.ienv "iimax" = i + (a : Int) + 1) :
    (exec fuel stJ s).ctl = .err "index" := by
  have hr : exec fuel stJ s = loopOver (fun st x => exec fuel stCell { st with ienv := setS st.ienv "j" x })
      (intRange (b : Int) ((ny : Int) - (b : Int))) s := by
    simp only [stJ]
    rw [exec_forRange_step1 _ _ _ _ _ _ rfl rfl]
    simp only [IE.eval, IOp.eval, hI.vny, hI.vwky, intRange_eq]
  rw [hr]
  have hlen : 0 < (intRange (b : Int) ((ny : Int) - (b : Int))).length := by
    simp only [intRange, List.length_map, List.length_range]; omega
  apply loopOver_err _ _ (fun st => st = s) "index" 0 hlen (fun _ _ hi => absurd hi (Nat.not_lt_zero _)) _ s hI.ctl rfl
  intro st hc hst
  subst hst
  have hx : (intRange (b : Int) ((ny : Int) - (b : Int)))[0] = (b : Int) := by
    simp [intRange]
  rw [hx]
  have hK1 : Keeps ["j"] st { st with ienv := setS st.ienv "j" (b : Int) } := by
    refine ⟨hc, rfl, fun _ _ => rfl, ?_⟩
    intro v hv
    simp only [List.mem_cons, List.mem_nil_iff, or_false] at hv
    simp only [setS, hv, if_false]
  have hI1 := hI.keeps hK1 (by decide) (by decide) (by decide) (by decide)
  exact conv_cell_err data kernel nx ny nkx nky a b fuel _ i (b : Int) hI1 hbad hi0 hi1 (Int.le_refl _) (by omega)
    (by rw [hK1.ienv _ (by decide)]; exact vi) (by simp)
    (by rw [hK1.ienv _ (by decide)]; exact vimin) (by rw [hK1.ienv _ (by decide)]; exact vimax)

theorem conv_row_err (data kernel : List F) (nx ny nkx nky a b : Nat) (fuel : Nat) (s : State F) (i : Int)
    (hI : CInv data kernel nx ny nkx nky a b s) (hbad : nkx ≤ 2 * a ∨ nky ≤ 2 * b) (hvis : 2 * b < ny)
    (hi0 : (a : Int) ≤ i) (hi1 : i < (nx : Int) - a) (vi : s.ienv "i" = i) :
    (exec fuel stRow s).ctl = .err "index" := by
  obtain ⟨s2, he, hK2, v1, v2⟩ := conv_row_pre data kernel nx ny nkx nky a b fuel s i hI hi0 hi1 vi
  have hI2 := hI.keeps hK2 (by decide) (by decide) (by decide) (by decide)
  rw [he]
  exact conv_j_err data kernel nx ny nkx nky a b fuel s2 i hI2 hbad hvis hi0 hi1
    (by rw [hK2.ienv _ (by decide)]; exact vi) v1 v2

/-- the `i` loop stops at its first row (there is one: `a < nx - a`) -/
theorem conv_rows_err (data kernel : List F) (nx ny nkx nky a b : Nat) (fuel : Nat) (s : State F)
    (hI : CInv data kernel nx ny nkx nky a b s) (hbad : nkx ≤ 2 * a ∨ nky ≤ 2 * b)
    (hvisx : 2 * a < nx) (hvisy : 2 * b < ny) :
    (exec fuel stI s).ctl = .err "index" := by
  have hr : exec fuel stI s = loopOver (fun st x => exec fuel stRow { st with ienv := setS st.ienv "i" x })
      (intRange (a : Int) ((nx : Int) - (a : Int))) s := by
    simp only [stI]
    rw [exec_forRange_step1 _ _ _ _ _ _ rfl rfl]
    simp only [IE.eval, IOp.eval, hI.vnx, hI.vwkx, intRange_eq]
  rw [hr]
  have hlen : 0 < (intRange (a : Int) ((nx : Int) - (a : Int))).length := by
    simp only [intRange, List.length_map, List.length_range]; omega
  apply loopOver_err _ _ (fun st => st = s) "index" 0 hlen (fun _ _ hi => absurd hi (Nat.not_lt_zero _)) _ s hI.ctl rfl
  intro st hc hst
  subst hst
  have hx : (intRange (a : Int) ((nx : Int) - (a : Int)))[0] = (a : Int) := by
    simp [intRange]
  rw [hx]
  have hK1 : Keeps ["i"] st { st with ienv := setS st.ienv "i" (a : Int) } := by
    refine ⟨hc, rfl, fun _ _ => rfl, ?_⟩
    intro v hv
    simp only [List.mem_cons, List.mem_nil_iff, or_false] at hv
    simp only [setS, hv, if_false]
  have hI1 := hI.keeps hK1 (by decide) (by decide) (by decide) (by decide)
  exact conv_row_err data kernel nx ny nkx nky a b fuel _ (a : Int) hI1 hbad hvisy (Int.le_refl _) (by omega) (by simp)

theorem convStart_inv' (data kernel : List F) (nx ny nkx nky : Nat) (s : State F)
    (hin : ConvInput data kernel nx ny nkx nky s) :
    CInv data kernel nx ny nkx nky (nkx / 2) (nky / 2) (convStart s nx ny nkx nky) :=
  ⟨hin.ctl, by simp [convStart, setS, hin.shd], by simp [convStart, setS, hin.shk], by simp [convStart],
    by simp [convStart, setS, hin.fad], by simp [convStart, setS, hin.fak], by simp [convStart, setS],
    by simp [convStart, setS], by simp [convStart, setS], by simp [convStart, setS]⟩

/-- **even kernels.** if a side of the kernel is even (a kernel with no row or no column included) and the outer loops
    visit at least one cell (`2 * (nkx // 2) < nx`, `2 * (nky // 2) < ny`), the generated program stops with an
    out-of-range read of `kernel` -- the real numba code reads past the end of a kernel row / of the kernel there -/
theorem convolve2d_even_err (data kernel : List F) (nx ny nkx nky : Nat) (s : State F) (fuel : Nat)
    (hin : ConvInput data kernel nx ny nkx nky s) (heven : nkx % 2 = 0 ∨ nky % 2 = 0)
    (hvisx : 2 * (nkx / 2) < nx) (hvisy : 2 * (nky / 2) < ny) :
    (Gen.IL.convolve2d.run s fuel).ctl = .err "index" := by
  simp only [Prog.run, conv_body_eq]
  rw [conv_prefix data kernel nx ny nkx nky fuel s hin]
  have hI := convStart_inv' data kernel nx ny nkx nky s hin
  have herr := conv_rows_err data kernel nx ny nkx nky (nkx / 2) (nky / 2) fuel _ hI
    (by rcases heven with h | h <;> omega) hvisx hvisy
  rw [exec_seq_stop fuel _ _ _ (by rw [herr]; simp)]
  exact herr

/-- a state holding the two arrays and nothing else -/
def convState (data kernel : List F) (nx ny nkx nky : Nat) : State F :=
  { (State.empty : State F) with
    fa := fun x => if x = "data" then data else if x = "kernel" then kernel else []
    shp := fun x => if x = "data" then [nx, ny] else if x = "kernel" then [nkx, nky] else [] }

theorem convState_input (data kernel : List F) (nx ny nkx nky : Nat) :
    ConvInput data kernel nx ny nkx nky (convState data kernel nx ny nkx nky) :=
  ⟨rfl, by simp [convState], by simp [convState], by simp [convState], by simp [convState]⟩

end XrsVerif.Focal
