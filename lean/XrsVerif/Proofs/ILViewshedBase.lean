import XrsVerif.Proofs.ILangVstree
import XrsVerif.Model.Viewshed
import XrsVerif.Gen.IL
/-
  Proofs/ILViewshedBase.lean -- the *abstraction* from an ILang state holding viewshed's status structure
  (the two arrays `tree_vals` (n, 8) and `tree_nodes` (n, 4) of xrspatial/viewshed.py, NIL = index -1 = the last
  row) to the functional tree of the hand model (Model/Viewshed.lean), for the refinement proofs of the nine
  generated tree programs `Gen.IL.vs*`.

  * `Fv F`        the numbers of an `[Fl F]` seen through the hand model's `<`, `≤`, `+ - * /` (`a < b` is
                  `Fl.lt a b = true`, ...); a type synonym, so that these instances never meet other instances on `F`;
  * `Sh`          a tree *shape*: which row is the root, which rows hang left / right (the pointer structure);
  * `Linked`      the link columns (left, right, parent) of `tree_nodes` spell out that shape;
  * `absT`        the hand model's tree read off the arrays along a shape: node values from `tree_vals[i][0..6]`,
                  stored maximum from `tree_vals[i][7]`, colour from `tree_nodes[i][0]` (0 = red);
  * `shapeOf`     the shape read off the arrays by following the links (fuel = height), `absOf = absT ∘ shapeOf`
                  is the abstraction *function*; `Linked.shapeOf` : on a well-linked state it finds the shape;
  * `VS s n`      well-formedness of the two arrays in a state: shapes (n, 8) / (n, 4), lengths, `n ≥ 1`.
-/
set_option linter.unusedSectionVars false
set_option linter.unusedVariables false
namespace XrsVerif.ILVs
open XrsVerif XrsVerif.IL XrsVerif.Viewshed
variable {F : Type} [Fl F]

/-! ### the numbers of `Fl` with the hand model's operations -/

/-- a number of `F`, wrapped: the carrier on which the hand model's operations are the `Fl` operations -/
structure Fv (F : Type) where
  v : F

instance : LT (Fv F) := ⟨fun a b => Fl.lt a.v b.v = true⟩
instance : LE (Fv F) := ⟨fun a b => Fl.le a.v b.v = true⟩
instance : DecidableLT (Fv F) := fun a b => inferInstanceAs (Decidable (Fl.lt a.v b.v = true))
instance : DecidableLE (Fv F) := fun a b => inferInstanceAs (Decidable (Fl.le a.v b.v = true))
instance : Add (Fv F) := ⟨fun a b => ⟨Fl.add a.v b.v⟩⟩
instance : Sub (Fv F) := ⟨fun a b => ⟨Fl.sub a.v b.v⟩⟩
instance : Mul (Fv F) := ⟨fun a b => ⟨Fl.mul a.v b.v⟩⟩
instance : Div (Fv F) := ⟨fun a b => ⟨Fl.div a.v b.v⟩⟩

theorem fv_lt (a b : Fv F) : (a < b) = (Fl.lt a.v b.v = true) := rfl
theorem fv_le (a b : Fv F) : (a ≤ b) = (Fl.le a.v b.v = true) := rfl
theorem fv_decide_lt (a b : Fv F) : decide (a < b) = Fl.lt a.v b.v := by
  show decide (Fl.lt a.v b.v = true) = _
  exact Bool.decide_eq_true
theorem fv_decide_le (a b : Fv F) : decide (a ≤ b) = Fl.le a.v b.v := by
  show decide (Fl.le a.v b.v = true) = _
  exact Bool.decide_eq_true
@[simp] theorem fv_add (a b : Fv F) : (a + b).v = Fl.add a.v b.v := rfl
@[simp] theorem fv_sub (a b : Fv F) : (a - b).v = Fl.sub a.v b.v := rfl
@[simp] theorem fv_mul (a b : Fv F) : (a * b).v = Fl.mul a.v b.v := rfl
@[simp] theorem fv_div (a b : Fv F) : (a / b).v = Fl.div a.v b.v := rfl
@[simp] theorem Fv.mk_v (a : Fv F) : (⟨a.v⟩ : Fv F) = a := rfl
theorem Fv.ext' {a b : Fv F} (h : a.v = b.v) : a = b := by cases a; cases b; simp_all

theorem mx2_v (a b : Fv F) : (mx2 a b).v = if Fl.lt b.v a.v = true then a.v else b.v := by
  unfold mx2; simp only [fv_lt]; split <;> rfl
theorem mn2_v (a b : Fv F) : (mn2 a b).v = if Fl.lt b.v a.v = true then b.v else a.v := by
  unfold mn2; simp only [fv_lt]; split <;> rfl

/-- `SMALLEST_GRAD = -9999999999999999999999.0` as the translator writes it (the float literal is the double
    `-1e22` exactly) -/
def smallest : Fv F := ⟨Fl.lit (-10000000000000000000000) 1⟩

/-! ### reading the arrays -/

/-- `tree_vals[i][j]` for a row index `i` -/
def vAt (vals : List F) (i j : Nat) : Fv F := ⟨vals.getD (i * 8 + j) Fl.nan⟩
/-- `tree_nodes[i][j]` for a row index `i` -/
def nAt (nodes : List Int) (i j : Nat) : Int := nodes.getD (i * 4 + j) 0

/-- the node stored in row `i` -/
def nodeAt (vals : List F) (i : Nat) : Node (Fv F) :=
  ⟨vAt vals i 0, vAt vals i 1, vAt vals i 2, vAt vals i 3, vAt vals i 4, vAt vals i 5, vAt vals i 6⟩

@[simp] theorem nodeAt_key (vals : List F) (i : Nat) : (nodeAt vals i).key = vAt vals i 0 := rfl
@[simp] theorem nodeAt_g0 (vals : List F) (i : Nat) : (nodeAt vals i).g0 = vAt vals i 1 := rfl
@[simp] theorem nodeAt_g1 (vals : List F) (i : Nat) : (nodeAt vals i).g1 = vAt vals i 2 := rfl
@[simp] theorem nodeAt_g2 (vals : List F) (i : Nat) : (nodeAt vals i).g2 = vAt vals i 3 := rfl
@[simp] theorem nodeAt_a0 (vals : List F) (i : Nat) : (nodeAt vals i).a0 = vAt vals i 4 := rfl
@[simp] theorem nodeAt_a1 (vals : List F) (i : Nat) : (nodeAt vals i).a1 = vAt vals i 5 := rfl
@[simp] theorem nodeAt_a2 (vals : List F) (i : Nat) : (nodeAt vals i).a2 = vAt vals i 6 := rfl

/-- the hand model's `spans` / `itp` in terms of the `Fl` operations -/
theorem spans_fl (nd : Node (Fv F)) (ang : Fv F) : spans nd ang = (Fl.le nd.a0.v ang.v && Fl.le ang.v nd.a2.v) := by
  unfold spans; rw [fv_decide_le, fv_decide_le]

theorem itp_v (nd : Node (Fv F)) (ang : Fv F) :
    (itp nd ang).v =
      if Fl.lt ang.v nd.a1.v = true then
        Fl.add nd.g1.v (Fl.div (Fl.mul (Fl.sub nd.g0.v nd.g1.v) (Fl.sub nd.a1.v ang.v)) (Fl.sub nd.a1.v nd.a0.v))
      else if Fl.lt nd.a1.v ang.v = true then
        Fl.add nd.g1.v (Fl.div (Fl.mul (Fl.sub nd.g2.v nd.g1.v) (Fl.sub ang.v nd.a1.v)) (Fl.sub nd.a2.v nd.a1.v))
      else nd.g1.v := by
  unfold itp
  simp only [fv_lt]
  split
  · rfl
  · split <;> rfl

/-- the pointer structure of a tree in the arrays -/
inductive Sh where
  | nil : Sh
  | node (l : Sh) (i : Nat) (r : Sh) : Sh
  deriving Repr, DecidableEq, Inhabited

/-- the pointer to (the root of) a shape: `NIL_ID = -1` for the empty tree -/
def Sh.ptr : Sh → Int
  | .nil => -1
  | .node _ i _ => (i : Int)

def Sh.idxs : Sh → List Nat
  | .nil => []
  | .node l i r => l.idxs ++ i :: r.idxs

def Sh.height : Sh → Nat
  | .nil => 0
  | .node l _ r => max l.height r.height + 1

def Sh.size : Sh → Nat
  | .nil => 0
  | .node l _ r => l.size + 1 + r.size

/-- the link columns of `tree_nodes` (n rows) spell out the shape `sh` hanging below the pointer `par`;
    every node is a proper row (the last row is NIL) -/
def Linked (nodes : List Int) (n : Nat) : Int → Sh → Prop
  | _, .nil => True
  | par, .node l i r =>
    i + 1 < n ∧ nAt nodes i 1 = l.ptr ∧ nAt nodes i 2 = r.ptr ∧ nAt nodes i 3 = par ∧
      Linked nodes n (i : Int) l ∧ Linked nodes n (i : Int) r

/-- **the abstraction**: the hand model's tree, read off the arrays along a shape -/
def absT (vals : List F) (nodes : List Int) : Sh → Tree (Fv F)
  | .nil => .nil
  | .node l i r =>
    .node (absT vals nodes l) (nodeAt vals i) (vAt vals i 7) (decide (nAt nodes i 0 = 0)) (absT vals nodes r)

/-- the shape found by following the links from a pointer (at most `fuel` levels) -/
def shapeOf (nodes : List Int) (n : Nat) : Nat → Int → Sh
  | 0, _ => .nil
  | fuel + 1, p =>
    if 0 ≤ p ∧ p + 1 < n then
      .node (shapeOf nodes n fuel (nAt nodes p.toNat 1)) p.toNat (shapeOf nodes n fuel (nAt nodes p.toNat 2))
    else .nil

/-- the abstraction function: arrays + root pointer ↦ the hand model's tree -/
def absOf (vals : List F) (nodes : List Int) (n : Nat) (fuel : Nat) (root : Int) : Tree (Fv F) :=
  absT vals nodes (shapeOf nodes n fuel root)

theorem Sh.ptr_node_nonneg (l r : Sh) (i : Nat) : 0 ≤ (Sh.node l i r).ptr := by simp [Sh.ptr]

theorem Linked.ptr_range {nodes : List Int} {n : Nat} {par : Int} {sh : Sh} (h : Linked nodes n par sh) :
    -1 ≤ sh.ptr ∧ sh.ptr + 1 < n ∨ sh.ptr = -1 := by
  cases sh with
  | nil => right; rfl
  | node l i r => left; simp only [Sh.ptr]; have := h.1; omega

/-- on a well-linked structure following the links finds the shape -/
theorem Linked.shapeOf {nodes : List Int} {n : Nat} : ∀ {sh : Sh} {par : Int} (fuel : Nat),
    Linked nodes n par sh → sh.height ≤ fuel → shapeOf nodes n fuel sh.ptr = sh := by
  intro sh
  induction sh with
  | nil =>
    intro par fuel _ _
    cases fuel with
    | zero => rfl
    | succ f => simp [ILVs.shapeOf, Sh.ptr]
  | node l i r ihl ihr =>
    intro par fuel h hf
    obtain ⟨hi, hl, hr, _, hL, hR⟩ := h
    cases fuel with
    | zero => simp [Sh.height] at hf
    | succ f =>
      simp only [Sh.height] at hf
      have h1 : l.height ≤ f := by omega
      have h2 : r.height ≤ f := by omega
      simp only [ILVs.shapeOf, Sh.ptr]
      have : (0 : Int) ≤ (i : Int) ∧ (i : Int) + 1 < n := by omega
      simp only [this, and_self, if_true, Int.toNat_natCast, hl, hr, ihl f hL h1, ihr f hR h2]

/-! ### well-formed states -/

/-- the two arrays of the status structure in a state: shapes (n, 8) / (n, 4), matching lengths, at least the
    NIL row -/
structure VS (s : State F) (n : Nat) : Prop where
  shpV : s.shp "tree_vals" = [n, 8]
  shpN : s.shp "tree_nodes" = [n, 4]
  lenV : (s.fa "tree_vals").length = n * 8
  lenN : (s.ia "tree_nodes").length = n * 4
  pos : 0 < n

/-- a state that differs only in scalars is as well-formed -/
theorem VS.of_eq {s r : State F} {n : Nat} (h : VS s n) (h1 : r.shp = s.shp) (h2 : r.fa = s.fa) (h3 : r.ia = s.ia) :
    VS r n :=
  ⟨by rw [h1]; exact h.shpV, by rw [h1]; exact h.shpN, by rw [h2]; exact h.lenV, by rw [h3]; exact h.lenN, h.pos⟩

/-- a pointer that may be dereferenced: NIL or a row -/
def PtrOK (n : Nat) (p : Int) : Prop := -1 ≤ p ∧ p < n

theorem Linked.ptrOK {nodes : List Int} {n : Nat} {par : Int} {sh : Sh} (h : Linked nodes n par sh) (hn : 0 < n) :
    PtrOK n sh.ptr := by
  cases sh with
  | nil => simp only [Sh.ptr, PtrOK]; omega
  | node l i r => simp only [Sh.ptr, PtrOK]; have := h.1; omega

/-! ### evaluation of the reads `tree_nodes[x][c]`, `tree_vals[x][c]` -/

theorem evalN (s : State F) (n : Nat) (hs : s.shp "tree_nodes" = [n, 4]) (x : String) (c : Int) (hc : 0 ≤ c) :
    IE.eval s (.ld2 "tree_nodes" (.var x) (.lit c)) = nAt (s.ia "tree_nodes") (rowOf n (s.ienv x)) c.toNat := by
  obtain ⟨k, rfl⟩ := Int.eq_ofNat_of_zero_le hc
  simp only [IE.eval, hs, nAt, Int.toNat_natCast]
  rw [off2_ptr n 4 _ k]

theorem okN (s : State F) (n : Nat) (hs : s.shp "tree_nodes" = [n, 4]) (x : String) (c : Int) (hc : 0 ≤ c ∧ c < 4) :
    IE.ok s (.ld2 "tree_nodes" (.var x) (.lit c)) = inRange (s.ienv x) n := by
  obtain ⟨k, rfl⟩ := Int.eq_ofNat_of_zero_le hc.1
  simp [IE.ok, IE.eval, hs, inRange_col 4 k (by omega)]

theorem evalV (s : State F) (n : Nat) (hs : s.shp "tree_vals" = [n, 8]) (x : String) (c : Int) (hc : 0 ≤ c) :
    FE.eval s (.ld2 "tree_vals" (.var x) (.lit c)) = (vAt (s.fa "tree_vals") (rowOf n (s.ienv x)) c.toNat).v := by
  obtain ⟨k, rfl⟩ := Int.eq_ofNat_of_zero_le hc
  simp only [FE.eval, IE.eval, hs, vAt, Int.toNat_natCast]
  rw [off2_ptr n 8 _ k]

theorem okV (s : State F) (n : Nat) (hs : s.shp "tree_vals" = [n, 8]) (x : String) (c : Int) (hc : 0 ≤ c ∧ c < 8) :
    FE.ok s (.ld2 "tree_vals" (.var x) (.lit c)) = inRange (s.ienv x) n := by
  obtain ⟨k, rfl⟩ := Int.eq_ofNat_of_zero_le hc.1
  simp [FE.ok, IE.ok, IE.eval, hs, inRange_col 8 k (by omega)]


/-! ### environments, frames -/

theorem setS_setS_same {α} (env : String → α) (v : String) (a b : α) : setS (setS env v a) v b = setS env v b := by
  funext w; simp only [setS]; split <;> rfl

theorem setS_self {α} (env : String → α) (v : String) : setS env v (env v) = env := by
  funext w; simp only [setS]; split <;> simp_all

/-- `r` differs from `s` at most in the listed scalar variables (and in control) -/
structure Frame (iv fv bv : List String) (s r : State F) : Prop where
  ia : r.ia = s.ia
  fa : r.fa = s.fa
  shp : r.shp = s.shp
  ext : r.ext = s.ext
  ienv : ∀ v, v ∉ iv → r.ienv v = s.ienv v
  fenv : ∀ v, v ∉ fv → r.fenv v = s.fenv v
  benv : ∀ v, v ∉ bv → r.benv v = s.benv v

theorem Frame.refl (iv fv bv : List String) (s : State F) : Frame iv fv bv s s :=
  ⟨rfl, rfl, rfl, rfl, fun _ _ => rfl, fun _ _ => rfl, fun _ _ => rfl⟩

theorem Frame.trans {iv fv bv : List String} {a b c : State F} (h1 : Frame iv fv bv a b) (h2 : Frame iv fv bv b c) :
    Frame iv fv bv a c :=
  ⟨h2.ia.trans h1.ia, h2.fa.trans h1.fa, h2.shp.trans h1.shp, h2.ext.trans h1.ext,
   fun v hv => (h2.ienv v hv).trans (h1.ienv v hv), fun v hv => (h2.fenv v hv).trans (h1.fenv v hv),
   fun v hv => (h2.benv v hv).trans (h1.benv v hv)⟩

theorem Frame.mono {iv fv bv iv' fv' bv' : List String} {a b : State F} (h : Frame iv fv bv a b)
    (h1 : ∀ v, v ∈ iv → v ∈ iv') (h2 : ∀ v, v ∈ fv → v ∈ fv') (h3 : ∀ v, v ∈ bv → v ∈ bv') : Frame iv' fv' bv' a b :=
  ⟨h.ia, h.fa, h.shp, h.ext, fun v hv => h.ienv v (fun hh => hv (h1 v hh)), fun v hv => h.fenv v (fun hh => hv (h2 v hh)),
   fun v hv => h.benv v (fun hh => hv (h3 v hh))⟩

theorem Frame.ctl {iv fv bv : List String} {a b : State F} (h : Frame iv fv bv a b) (k : Ctl) :
    Frame iv fv bv a { b with ctl := k } :=
  ⟨h.ia, h.fa, h.shp, h.ext, h.ienv, h.fenv, h.benv⟩

theorem Frame.vs {iv fv bv : List String} {a b : State F} {n : Nat} (h : Frame iv fv bv a b) (hv : VS a n) : VS b n :=
  hv.of_eq h.shp h.fa h.ia

/-! ### the two inlined helpers `_compare` and `_find_value_min_value` -/

/-- three-way comparison `_compare(a, b)` -/
def cmp3 (a b : F) : Int := if Fl.lt a b = true then -1 else if Fl.lt b a = true then 1 else 0

/-- the inlined `_compare(a, b)` -/
def cmpScope (a b r : String) : St :=
  (.scope (.seq (.ite (.cmpF .lt (.var a) (.var b))
          (.seq (.setI r (.lit (-1)))
          .ret)
          .skip)
        (.seq (.ite (.cmpF .gt (.var a) (.var b))
          (.seq (.setI r (.lit 1))
          .ret)
          .skip)
        (.seq (.setI r (.lit 0))
        .ret))))

theorem cmpScope_spec (a b r : String) (fuel : Nat) (s : State F) (hrun : s.ctl = .run) :
    exec fuel (cmpScope a b r) s = { s with ienv := setS s.ienv r (cmp3 (s.fenv a) (s.fenv b)) } := by
  unfold cmpScope cmp3
  by_cases h1 : Fl.lt (s.fenv a) (s.fenv b) = true
  · simp [exec, BE.ok, BE.eval, FE.ok, FE.eval, IE.ok, IE.eval, CmpOp.eval, h1, hrun]
  · by_cases h2 : Fl.lt (s.fenv b) (s.fenv a) = true
    · simp [exec, BE.ok, BE.eval, FE.ok, FE.eval, IE.ok, IE.eval, CmpOp.eval, h1, h2, hrun]
    · simp [exec, BE.ok, BE.eval, FE.ok, FE.eval, IE.ok, IE.eval, CmpOp.eval, h1, h2, hrun]

/-- `if a > m: m = a` -/
def maxUpd (a m : String) : St := .ite (.cmpF .gt (.var a) (.var m)) (.setF m (.var a)) .skip

theorem maxUpd_spec (a m : String) (fuel : Nat) (s : State F) :
    exec fuel (maxUpd a m) s = { s with fenv := setS s.fenv m (mx2 (⟨s.fenv a⟩ : Fv F) ⟨s.fenv m⟩).v } := by
  unfold maxUpd
  by_cases h : Fl.lt (s.fenv m) (s.fenv a) = true
  · simp [exec, BE.ok, BE.eval, FE.ok, FE.eval, CmpOp.eval, h, mx2_v]
  · simp [exec, BE.ok, BE.eval, FE.ok, FE.eval, CmpOp.eval, h, mx2_v, setS_self]

/-- the expression `min(tree_vals[nid][TN_GRAD_0], tree_vals[nid][TN_GRAD_1], tree_vals[nid][TN_GRAD_2])` -/
def minvE (nid : String) : FE :=
  (.bin .min (.bin .min (.ld2 "tree_vals" (.var nid) (.lit 1)) (.ld2 "tree_vals" (.var nid) (.lit 2)))
    (.ld2 "tree_vals" (.var nid) (.lit 3)))

theorem minvE_eval (s : State F) (n : Nat) (hs : s.shp "tree_vals" = [n, 8]) (nid : String) :
    (minvE nid).eval s = (minv (nodeAt (s.fa "tree_vals") (rowOf n (s.ienv nid)))).v := by
  have e1 := evalV s n hs nid 1 (by decide)
  have e2 := evalV s n hs nid 2 (by decide)
  have e3 := evalV s n hs nid 3 (by decide)
  simp only [minvE, FE.eval_bin, e1, e2, e3, BinOp.eval, minv, mn2_v, nodeAt]
  rfl

theorem minvE_ok (s : State F) (n : Nat) (hs : s.shp "tree_vals" = [n, 8]) (nid : String)
    (hp : inRange (s.ienv nid) n = true) : (minvE nid).ok s = true := by
  have o1 := okV s n hs nid 1 (by decide)
  have o2 := okV s n hs nid 2 (by decide)
  have o3 := okV s n hs nid 3 (by decide)
  simp only [minvE, FE.ok_bin, o1, o2, o3, hp, Bool.and_self]

/-- the inlined `_find_value_min_value(tree_vals, nid)`: `ret := min(...)` in a scope -/
def minvScope (nid ret : String) : St := .scope (.seq (.setF ret (minvE nid)) .ret)

theorem minvScope_spec (nid ret : String) (fuel n : Nat) (s : State F) (hs : s.shp "tree_vals" = [n, 8])
    (hrun : s.ctl = .run) (hp : inRange (s.ienv nid) n = true) :
    exec fuel (minvScope nid ret) s =
      { s with fenv := setS s.fenv ret (minv (nodeAt (s.fa "tree_vals") (rowOf n (s.ienv nid)))).v } := by
  rw [minvScope, exec_scope, exec_seq, exec_setF _ _ _ _ (minvE_ok s n hs _ hp), minvE_eval s n hs]
  simp [hrun, exec_ret]

end XrsVerif.ILVs
