import XrsVerif.Proofs.ILAStar
/-
  Proofs/ILAStarSnap.lean -- refinement of the generated `_find_nearest_pixel` (`Gen.IL.findNearestPixel`).

  * `findNearestPixel_refines` (any `[Fl F]`, no laws): the program returns `findNearestF`, the scan of the hand
    model with the float comparison `sqrt(d²) < min_distance` the code performs (`min_distance` starts at `inf`);
  * `findNearestF_eq` : under `SqrtLt F` (`sqrt` of integers is strictly monotone and below `inf`) this is the hand
    model `AStar.findNearest` (which compares squared distances), `(-1, -1)` standing for `none`.
-/
namespace XrsVerif.IL
open XrsVerif XrsVerif.AStar
variable {F : Type} [Fl F]
set_option linter.unusedSectionVars false
set_option linter.unusedVariables false
set_option linter.unusedSimpArgs false

/-- `np.inf` as the translator spells it -/
def flInf : F := Fl.div (Fl.lit 1 1) (Fl.lit 0 1)

/-- `_distance(c.x, c.y, p.x, p.y)` on pixel indices -/
def flDist (c p : Cell) : F := Fl.sqrt (Fl.lit (sqDist c p) 1)

/-- one iteration of the scan of `_find_nearest_pixel` with the comparison the code performs -/
def nearStepF (cross : Cell → Bool) (p : Cell) (acc : Cell × F) (c : Cell) : Cell × F :=
  if cross c && Fl.lt (flDist c p : F) acc.2 then (c, flDist c p) else acc

/-- `_find_nearest_pixel` with float comparisons; `(-1, -1)` = nothing found -/
def findNearestF (h w : Nat) (cross : Cell → Bool) (p : Cell) : Cell :=
  if cross p then p else ((cells h w).foldl (nearStepF (F := F) cross p) ((-1, -1), flInf)).1

def fnA : St := .setF "_is_not_crossable2$cell_value" (.ld2 "data" (.var "y") (.var "x"))

def fnC : St :=
  .ite (.not (.var "_is_not_crossable2$ret0"))
    (.seq (.setI "_distance3$x1" (.var "x"))
    (.seq (.setI "_distance3$y1" (.var "y"))
    (.seq (.setI "_distance3$x2" (.var "px"))
    (.seq (.setI "_distance3$y2" (.var "py"))
    (.seq (.scope (.seq (.setF "_distance3$ret0" (.un .sqrt (.ofInt (.bin .add (.bin .mul (.bin .sub (.var "_distance3$x1") (.var "_distance3$x2")) (.bin .sub (.var "_distance3$x1") (.var "_distance3$x2"))) (.bin .mul (.bin .sub (.var "_distance3$y1") (.var "_distance3$y2")) (.bin .sub (.var "_distance3$y1") (.var "_distance3$y2")))))))
    .ret))
    (.seq (.setF "d" (.var "_distance3$ret0"))
    (.ite (.cmpF .lt (.var "d") (.var "min_distance"))
      (.seq (.setF "min_distance" (.var "d"))
      (.seq (.setI "nearest_y" (.var "y"))
      (.setI "nearest_x" (.var "x"))))
      .skip)))))))
    .skip

def fnBody : St :=
  .seq fnA (.seq (.scope (ncSt "_is_not_crossable2$cell_value" "_is_not_crossable2$i" "_is_not_crossable2$ret0")) fnC)

def fnLoops : St :=
  .forRange "y" (.lit 0) (.var "height") (.lit 1) (.forRange "x" (.lit 0) (.var "width") (.lit 1) fnBody)

def fnTail : St :=
  .seq (.setI "height" (.dim "data" 0))
  (.seq (.setI "width" (.dim "data" 1))
  (.seq (.setF "min_distance" .inf)
  (.seq (.setI "nearest_y" (.lit (-1)))
  (.seq (.setI "nearest_x" (.lit (-1)))
  (.seq fnLoops
  (.seq (.setI "ret0" (.var "nearest_y"))
  (.seq (.setI "ret1" (.var "nearest_x"))
  .ret)))))))

def fnKeep : St :=
  .ite (.not (.var "_is_not_crossable1$ret0"))
    (.seq (.setI "ret0" (.var "py")) (.seq (.setI "ret1" (.var "px")) .ret)) .skip

theorem findNearestPixel_body : Gen.IL.findNearestPixel.body =
    .seq (.setF "_is_not_crossable1$cell_value" (.ld2 "data" (.var "py") (.var "px")))
    (.seq (.scope (ncSt "_is_not_crossable1$cell_value" "_is_not_crossable1$i" "_is_not_crossable1$ret0"))
    (.seq fnKeep fnTail)) := rfl

/-- the scalar variables the scan writes -/
def fnI : List String := ["height", "width", "nearest_y", "nearest_x", "y", "x", "_distance3$x1", "_distance3$y1",
  "_distance3$x2", "_distance3$y2", "ret0", "ret1"]
def fnF : List String := ["_is_not_crossable1$cell_value", "_is_not_crossable1$i", "_is_not_crossable2$cell_value",
  "_is_not_crossable2$i", "min_distance", "d", "_distance3$ret0"]
def fnB : List String := ["_is_not_crossable1$ret0", "_is_not_crossable2$ret0"]

/-- the inputs of `_find_nearest_pixel`: `data` is an `h × w` raster, `cross` its crossability -/
structure FnAbs (h w : Nat) (cross : Cell → Bool) (s : State F) : Prop where
  sd : s.shp "data" = [h, w]
  sb : (s.shp "barriers").length = 1
  cross : ∀ c, inside h w c = true → cross c = !notCross ((s.fa "data").getD (cidx w c) Fl.nan) (s.fa "barriers")

structure FnInv (h w : Nat) (s st : State F) (acc : Cell × F) : Prop where
  frame : Frame fnI fnF fnB s st
  hh : st.ienv "height" = (h : Int)
  ww : st.ienv "width" = (w : Int)
  pos : (st.ienv "nearest_y", st.ienv "nearest_x") = acc.1
  md : st.fenv "min_distance" = acc.2

theorem fn_body (h w : Nat) (cross : Cell → Bool) (s : State F) (habs : FnAbs h w cross s) (fuel : Nat)
    (i j : Nat) (hi : i < h) (hj : j < w) (st : State F) (hst : st.ctl = .run) (acc : Cell × F)
    (hinv : FnInv h w s st acc) (hy : st.ienv "y" = (i : Int)) (hx : st.ienv "x" = (j : Int)) :
    let r := exec fuel fnBody st
    r.ctl = .run ∧ r.ienv "y" = (i : Int) ∧
      FnInv h w s r (nearStepF cross (s.ienv "py", s.ienv "px") acc ((i : Int), (j : Int))) := by
  have r1 := inRange_of_lt i h hi
  have r2 := inRange_of_lt j w hj
  have hsd : st.shp "data" = [h, w] := by rw [hinv.frame.shp, habs.sd]
  have hA : exec fuel fnA st =
      { st with fenv := setS st.fenv "_is_not_crossable2$cell_value" ((s.fa "data").getD (i * w + j) Fl.nan) } := by
    ilsimp [fnA, hsd, hy, hx, r1, r2, off2_nat, hinv.frame.fa]
  obtain ⟨z, hz⟩ := nc_scope "_is_not_crossable2$cell_value" "_is_not_crossable2$i" "_is_not_crossable2$ret0"
    (by decide) fuel
    { st with fenv := setS st.fenv "_is_not_crossable2$cell_value" ((s.fa "data").getD (i * w + j) Fl.nan) }
    hst (by simp [hinv.frame.shp, habs.sb])
  have hin := inside_nat h w i j hi hj
  have hpy : st.ienv "py" = s.ienv "py" := hinv.frame.ienv _ (by decide)
  have hpx : st.ienv "px" = s.ienv "px" := hinv.frame.ienv _ (by decide)
  intro r
  show (exec fuel fnBody st).ctl = .run ∧ (exec fuel fnBody st).ienv "y" = (i : Int) ∧
      FnInv h w s (exec fuel fnBody st) _
  rw [fnBody, exec_seq_to hA hst, exec_seq_to hz hst]
  simp only [nearStepF, habs.cross _ hin, cidx_nat, ← hinv.md]
  simp only [setS_same, hinv.frame.fa]
  by_cases c1 : notCross ((s.fa "data").getD (i * w + j) Fl.nan) (s.fa "barriers") = true
  · ilsimp [fnC, c1, hst, hy]
    exact ⟨by frame_from [fnI, fnF, fnB] hinv.frame, by simp [setS_apply, hinv.hh], by simp [setS_apply, hinv.ww],
      by simp [setS_apply, hinv.pos], by simp [setS_apply, hinv.md]⟩
  · by_cases c2 : Fl.lt (flDist ((i : Int), (j : Int)) (s.ienv "py", s.ienv "px") : F) (st.fenv "min_distance") = true
    · simp only [c2]
      simp only [flDist, sqDist] at c2 ⊢
      ilsimp [fnC, c1, c2, hst, hy, hx, hpy, hpx]
      exact ⟨by frame_from [fnI, fnF, fnB] hinv.frame, by simp [setS_apply, hinv.hh], by simp [setS_apply, hinv.ww],
        by simp [setS_apply], by simp [setS_apply]⟩
    · simp only [c2]
      simp only [flDist, sqDist] at c2 ⊢
      ilsimp [fnC, c1, c2, hst, hy, hx, hpy, hpx]
      exact ⟨by frame_from [fnI, fnF, fnB] hinv.frame, by simp [setS_apply, hinv.hh], by simp [setS_apply, hinv.ww],
        by simp [setS_apply, hinv.pos], by simp [setS_apply, hinv.md]⟩

theorem FnInv.setI_y {h w : Nat} {s st : State F} {acc : Cell × F} (hinv : FnInv h w s st acc) (v : Int) :
    FnInv h w s { st with ienv := setS st.ienv "y" v } acc :=
  ⟨by frame_from [fnI, fnF, fnB] hinv.frame, by simp [setS_apply, hinv.hh], by simp [setS_apply, hinv.ww],
   by simp [setS_apply, hinv.pos], by simp [hinv.md]⟩

theorem FnInv.setI_x {h w : Nat} {s st : State F} {acc : Cell × F} (hinv : FnInv h w s st acc) (v : Int) :
    FnInv h w s { st with ienv := setS st.ienv "x" v } acc :=
  ⟨by frame_from [fnI, fnF, fnB] hinv.frame, by simp [setS_apply, hinv.hh], by simp [setS_apply, hinv.ww],
   by simp [setS_apply, hinv.pos], by simp [hinv.md]⟩

theorem fn_row (h w : Nat) (cross : Cell → Bool) (s : State F) (habs : FnAbs h w cross s) (fuel : Nat)
    (i : Nat) (hi : i < h) (st : State F) (hst : st.ctl = .run) (acc : Cell × F)
    (hinv : FnInv h w s st acc) (hy : st.ienv "y" = (i : Int)) :
    let r := exec fuel (.forRange "x" (.lit 0) (.var "width") (.lit 1) fnBody) st
    r.ctl = .run ∧ r.ienv "y" = (i : Int) ∧
      FnInv h w s r (((List.range w).map fun (j : Nat) => ((i : Int), (j : Int))).foldl
        (nearStepF cross (s.ienv "py", s.ienv "px")) acc) := by
  intro r
  have key := forRange_up "x" (.var "width") fnBody w fuel st hst (by simp [IE.ok]) (by simp [IE.eval, hinv.ww])
    (fun j st' => st'.ienv "y" = (i : Int) ∧
      FnInv h w s st' (((List.range j).map fun (j : Nat) => ((i : Int), (j : Int))).foldl
        (nearStepF cross (s.ienv "py", s.ienv "px")) acc))
    ⟨hy, by simpa using hinv⟩
    (fun j hj st' hst' ⟨hy', hinv'⟩ => by
      have hb := fn_body h w cross s habs fuel i j hi hj { st' with ienv := setS st'.ienv "x" (j : Int) } hst' _
        (hinv'.setI_x j) (by simp [setS_apply, hy']) (by simp)
      rw [foldl_map_range_succ, afterBody_run _ hb.1]
      exact hb)
  exact ⟨key.1, key.2.1, key.2.2⟩

theorem fn_loops (h w : Nat) (cross : Cell → Bool) (s : State F) (habs : FnAbs h w cross s) (fuel : Nat)
    (st : State F) (hst : st.ctl = .run) (acc : Cell × F) (hinv : FnInv h w s st acc) :
    let r := exec fuel fnLoops st
    r.ctl = .run ∧ FnInv h w s r ((cells h w).foldl (nearStepF cross (s.ienv "py", s.ienv "px")) acc) := by
  intro r
  rw [foldl_cells]
  exact forRange_up "y" (.var "height") _ h fuel st hst (by simp [IE.ok]) (by simp [IE.eval, hinv.hh])
    (fun i st' => FnInv h w s st' ((List.range i).foldl (fun acc (i : Nat) =>
        ((List.range w).map fun (j : Nat) => ((i : Int), (j : Int))).foldl
          (nearStepF cross (s.ienv "py", s.ienv "px")) acc) acc))
    (by simpa using hinv)
    (fun i hi st' hst' hinv' => by
      have hr := fn_row h w cross s habs fuel i hi { st' with ienv := setS st'.ienv "y" (i : Int) } hst' _
        (hinv'.setI_y i) (by simp)
      rw [foldl_range_succ]
      exact ⟨by rw [afterBody_run _ hr.1]; exact hr.1, by rw [afterBody_run _ hr.1]; exact hr.2.2⟩)

/-- the part of `_find_nearest_pixel` after the early return: the scan -/
theorem fn_tail (h w : Nat) (cross : Cell → Bool) (s : State F) (habs : FnAbs h w cross s) (fuel : Nat)
    (st : State F) (hst : st.ctl = .run) (hfr : Frame fnI fnF fnB s st) :
    let r := exec fuel fnTail st
    r.ctl = .ret ∧ Frame fnI fnF fnB s r ∧ (r.ienv "ret0", r.ienv "ret1") =
      ((cells h w).foldl (nearStepF cross (s.ienv "py", s.ienv "px")) ((-1, -1), (flInf : F))).1 := by
  have hsd : st.shp "data" = [h, w] := by rw [hfr.shp, habs.sd]
  have hl := fn_loops h w cross s habs fuel
    { st with ienv := setS (setS (setS (setS st.ienv "height" (h : Int)) "width" (w : Int)) "nearest_y" (-1))
                        "nearest_x" (-1),
              fenv := setS st.fenv "min_distance" (Fl.div (Fl.lit 1 1) (Fl.lit 0 1)), ctl := .run } rfl
    ((-1, -1), (flInf : F))
    ⟨by frame_from [fnI, fnF, fnB] hfr, by simp [setS_apply], by simp [setS_apply], by simp [setS_apply],
     by simp [flInf]⟩
  show (exec fuel fnTail st).ctl = .ret ∧ Frame fnI fnF fnB s (exec fuel fnTail st) ∧
    ((exec fuel fnTail st).ienv "ret0", (exec fuel fnTail st).ienv "ret1") = _
  ilsimp [fnTail, hst, hsd, hl.1]
  generalize exec (F := F) fuel fnLoops _ = rl at hl ⊢
  exact ⟨by frame_from [fnI, fnF, fnB] hl.2.frame, hl.2.pos⟩

/-- **`Gen.IL.findNearestPixel` computes `findNearestF`** (any number type): a crossable cell is returned
    unchanged; otherwise the scan over all cells in row-major order keeps the first crossable cell whose distance
    `sqrt(dx² + dy²)` is `<` the running minimum, which starts at `inf`; `(-1, -1)` if none.  The arrays are not
    written.  Well-formedness: `data` has shape `[h, w]`, `(py, px)` is a cell of the raster. -/
theorem findNearestPixel_refines (h w : Nat) (cross : Cell → Bool) (s : State F) (fuel : Nat) (hs : s.ctl = .run)
    (habs : FnAbs h w cross s) (hp : inside h w (s.ienv "py", s.ienv "px") = true) :
    let r := Gen.IL.findNearestPixel.run s fuel
    r.ctl = .ret ∧ (r.ienv "ret0", r.ienv "ret1") = findNearestF (F := F) h w cross (s.ienv "py", s.ienv "px") ∧
      r.fa = s.fa ∧ r.ia = s.ia := by
  have hp' := (inside_iff h w _).1 hp
  have r1 : inRange (s.ienv "py") h = true := inRange_inside hp'.1 hp'.2.1
  have r2 : inRange (s.ienv "px") w = true := inRange_inside hp'.2.2.1 hp'.2.2.2
  have ho := off2_inside h w _ hp
  have hcr := habs.cross _ hp
  simp only [] at ho
  generalize hdv : (s.fa "data").getD (cidx w (s.ienv "py", s.ienv "px")) Fl.nan = dv at hcr
  have hA : exec fuel (.setF "_is_not_crossable1$cell_value" (.ld2 "data" (.var "py") (.var "px"))) s =
      { s with fenv := setS s.fenv "_is_not_crossable1$cell_value" dv } := by
    ilsimp [habs.sd, r1, r2, ho, hdv]
  obtain ⟨z, hz⟩ := nc_scope "_is_not_crossable1$cell_value" "_is_not_crossable1$i" "_is_not_crossable1$ret0"
    (by decide) fuel { s with fenv := setS s.fenv "_is_not_crossable1$cell_value" dv } hs habs.sb
  simp only [Prog.run, findNearestPixel_body]
  rw [exec_seq_to hA hs, exec_seq_to hz hs]
  simp only [findNearestF, hcr, setS_same]
  by_cases c1 : notCross dv (s.fa "barriers") = true
  · simp only [c1]
    have ht := fn_tail h w cross s habs fuel
      { s with fenv := setS (setS s.fenv "_is_not_crossable1$cell_value" dv) "_is_not_crossable1$i" z,
               benv := setS s.benv "_is_not_crossable1$ret0" true, ctl := .run }
      rfl (by frame_from [fnI, fnF, fnB] (Frame.refl fnI fnF fnB s))
    ilsimp [fnKeep, c1, hs]
    exact ⟨ht.1, ht.2.2, ht.2.1.fa, ht.2.1.ia⟩
  · simp only [c1]
    ilsimp [fnKeep, c1, hs]

/-! ### the float scan is the model's scan when `sqrt` is strictly monotone on the integers -/

/-- the two facts about `np.sqrt`, `<` and `np.inf` the comparison of distances relies on (they hold for IEEE
    doubles as long as the squared distances stay below 2^52; they fail for a number type whose `1/0` is NaN) -/
structure SqrtLt (F : Type) [Fl F] : Prop where
  inf : ∀ a : Int, 0 ≤ a → Fl.lt (Fl.sqrt (Fl.lit a 1) : F) flInf = true
  mono : ∀ a b : Int, 0 ≤ a → 0 ≤ b → Fl.lt (Fl.sqrt (Fl.lit a 1) : F) (Fl.sqrt (Fl.lit b 1)) = decide (a < b)

theorem int_sq_nonneg (a : Int) : 0 ≤ a * a := by
  rcases Int.le_total 0 a with h | h
  · exact Int.mul_nonneg h h
  · exact Int.mul_nonneg_of_nonpos_of_nonpos h h

theorem sqDist_nonneg (a b : Cell) : 0 ≤ sqDist a b := Int.add_nonneg (int_sq_nonneg _) (int_sq_nonneg _)

/-- the float accumulator `(cell, min_distance)` represents the model's `Option (Cell × Int)` -/
def NearRel (a : Cell × F) : Option (Cell × Int) → Prop
  | none => a = ((-1, -1), flInf)
  | some (c, m) => a = (c, Fl.sqrt (Fl.lit m 1)) ∧ 0 ≤ m

theorem nearStep_rel (hF : SqrtLt F) (cross : Cell → Bool) (p : Cell) (a : Cell × F) (b : Option (Cell × Int))
    (c : Cell) (h : NearRel a b) : NearRel (nearStepF cross p a c) (nearStep cross p b c) := by
  unfold nearStepF nearStep
  by_cases hc : cross c = true
  · simp only [hc, Bool.true_and, if_true]
    cases b with
    | none =>
      simp only [NearRel] at h
      simp only [h, flDist, hF.inf _ (sqDist_nonneg c p), if_true]
      exact ⟨rfl, sqDist_nonneg c p⟩
    | some cm =>
      obtain ⟨c0, m⟩ := cm
      simp only [NearRel] at h
      obtain ⟨h1, h2⟩ := h
      simp only [h1, flDist, hF.mono _ _ (sqDist_nonneg c p) h2, decide_eq_true_eq]
      split
      · exact ⟨rfl, sqDist_nonneg c p⟩
      · exact ⟨rfl, h2⟩
  · simp only [hc, Bool.false_and]
    exact h

theorem foldl_nearRel (hF : SqrtLt F) (cross : Cell → Bool) (p : Cell) (l : List Cell) (a : Cell × F)
    (b : Option (Cell × Int)) (h : NearRel a b) :
    NearRel (l.foldl (nearStepF cross p) a) (l.foldl (nearStep cross p) b) := by
  induction l generalizing a b with
  | nil => exact h
  | cons c l ih => exact ih _ _ (nearStep_rel hF cross p a b c h)

/-- under `SqrtLt F` the scan with float comparisons returns the hand model's `findNearest` -/
theorem findNearestF_eq (hF : SqrtLt F) (h w : Nat) (cross : Cell → Bool) (p : Cell) :
    findNearestF (F := F) h w cross p = enc (findNearest h w cross p) := by
  unfold findNearestF findNearest
  by_cases hc : cross p = true
  · simp [hc, enc]
  · simp only [hc, if_false]
    have := foldl_nearRel hF cross p (cells h w) ((-1, -1), flInf) none rfl
    generalize (cells h w).foldl (nearStepF (F := F) cross p) ((-1, -1), flInf) = a at this ⊢
    generalize (cells h w).foldl (nearStep cross p) none = b at this ⊢
    cases b with
    | none => simp only [NearRel] at this; simp [this, enc]
    | some cm => obtain ⟨c0, m⟩ := cm; simp only [NearRel] at this; simp [this.1, enc]

end XrsVerif.IL
