import XrsVerif.Proofs.ILAStar
import XrsVerif.Proofs.AStarInv
/-
  Proofs/ILAStarPath.lean -- refinement of the generated `_reconstruct_path` (`Gen.IL.reconstructPath`) and of the
  copy inlined into `_a_star_search`.

  `parentOf pys pxs w c` reads the back pointer of cell `c` from the arrays `parent_ys` / `parent_xs` (`none` when
  an entry is `NONE = -1`).  If the model's `AStar.walk` over these pointers reaches `start` from `goal` within some
  fuel (`= some chain`; this is what the invariant of the search provides, `AStar.search_spec`) and the cells of the
  chain lie in the raster, the program terminates with fuel `chain.length`, writes `cost[c]` into `path_img[c]`
  exactly for the cells `c` of the chain and nothing else.  If the goal has no parent nothing is written.
-/
namespace XrsVerif.IL
open XrsVerif XrsVerif.AStar
variable {F : Type} [Fl F]
set_option linter.unusedSectionVars false
set_option linter.unusedVariables false
set_option linter.unusedSimpArgs false

/-- the back pointer stored for cell `c` (`none` = `(NONE, NONE)`) -/
def parentOf (pys pxs : List Int) (w : Nat) (c : Cell) : Option Cell :=
  if pys.getD (cidx w c) 0 = -1 ∨ pxs.getD (cidx w c) 0 = -1 then none
  else some (pys.getD (cidx w c) 0, pxs.getD (cidx w c) 0)

/-- write `cost[c]` into `img[c]` for the cells of the list, in order -/
def chainW (cost : List F) (w : Nat) (cs : List Cell) (img : List F) : List F :=
  cs.foldl (fun l c => l.set (cidx w c) (cost.getD (cidx w c) Fl.nan)) img

theorem chainW_length (cost : List F) (w : Nat) (cs : List Cell) (img : List F) :
    (chainW cost w cs img).length = img.length := by
  induction cs generalizing img with
  | nil => rfl
  | cons c cs ih => simp only [chainW, List.foldl_cons] at ih ⊢; rw [ih]; simp

/-- the cells of the chain receive their cost, every other cell keeps its value -/
theorem chainW_getD (cost : List F) (h w : Nat) (cs : List Cell) (img : List F) (hl : img.length = h * w)
    (hcs : ∀ c ∈ cs, inside h w c = true) (c : Cell) (hc : inside h w c = true) (d : F) :
    (chainW cost w cs img).getD (cidx w c) d =
      if c ∈ cs then cost.getD (cidx w c) Fl.nan else img.getD (cidx w c) d := by
  induction cs generalizing img with
  | nil => simp [chainW]
  | cons c0 cs ih =>
    have hc0 := hcs c0 (by simp)
    have := ih (img.set (cidx w c0) (cost.getD (cidx w c0) Fl.nan)) (by simpa using hl)
      (fun x hx => hcs x (by simp [hx]))
    simp only [chainW, List.foldl_cons] at this ⊢
    rw [this]
    by_cases hm : c ∈ cs
    · simp [hm]
    · simp only [hm, if_false, List.mem_cons, or_false]
      by_cases he : c = c0
      · subst he
        rw [getD_set_same _ _ _ _ (by rw [hl]; exact cidx_lt h w c hc)]; simp
      · have : cidx w c0 ≠ cidx w c := fun e => he (cidx_inj h w c c0 hc hc0 e.symm)
        rw [getD_set_other _ _ _ _ _ this]; simp [he]

def rcLoopBody (q : String → String) (costArr : String) : St :=
  .seq (.stF2 "path_img" (.var (q "current_y")) (.var (q "current_x"))
          (.ld2 costArr (.var (q "current_y")) (.var (q "current_x"))))
  (.seq (.setI (q "parent_y") (.ld2 "parent_ys" (.var (q "current_y")) (.var (q "current_x"))))
  (.seq (.setI (q "parent_x") (.ld2 "parent_xs" (.var (q "current_y")) (.var (q "current_x"))))
  (.seq (.setI (q "current_y") (.var (q "parent_y")))
  (.setI (q "current_x") (.var (q "parent_x"))))))

def rcCond (q : String → String) : BE :=
  .or (.cmpI .ne (.var (q "current_x")) (.var (q "start_px"))) (.cmpI .ne (.var (q "current_y")) (.var (q "start_py")))

def rcWhile (q : String → String) (costArr : String) : St := .while (rcCond q) (rcLoopBody q costArr)

/-- the body of `_reconstruct_path`, locals renamed by `q`, the array of values named `costArr` -/
def rcSt (q : String → String) (costArr : String) : St :=
  .seq (.setI (q "current_x") (.var (q "goal_px")))
  (.seq (.setI (q "current_y") (.var (q "goal_py")))
  (.seq (.ite (.and (.cmpI .ne (.ld2 "parent_xs" (.var (q "current_y")) (.var (q "current_x"))) (.lit (-1)))
                    (.cmpI .ne (.ld2 "parent_ys" (.var (q "current_y")) (.var (q "current_x"))) (.lit (-1))))
    (.seq (.stF2 "path_img" (.var (q "start_py")) (.var (q "start_px"))
             (.ld2 costArr (.var (q "start_py")) (.var (q "start_px"))))
    (rcWhile q costArr))
    .skip)
  .ret))

theorem reconstructPath_body : Gen.IL.reconstructPath.body = rcSt (fun a => a) "cost" := rfl

/-- the integer variables `_reconstruct_path` writes -/
def rcI (q : String → String) : List String := [q "current_x", q "current_y", q "parent_y", q "parent_x"]

/-- shapes of the four arrays -/
structure RcShp (h w : Nat) (costArr : String) (s : State F) : Prop where
  sp : s.shp "path_img" = [h, w]
  sy : s.shp "parent_ys" = [h, w]
  sx : s.shp "parent_xs" = [h, w]
  sc : s.shp costArr = [h, w]
  ne : costArr ≠ "path_img"

/-- everything but `path_img`, control and the four locals is unchanged -/
structure RcFrame (q : String → String) (s r : State F) : Prop where
  ia : r.ia = s.ia
  shp : r.shp = s.shp
  ext : r.ext = s.ext
  fenv : r.fenv = s.fenv
  benv : r.benv = s.benv
  ienv : ∀ x, x ∉ rcI q → r.ienv x = s.ienv x

theorem rc_loop (q : String → String) (hq : Ren q) (costArr : String) (h w : Nat) (start : Cell) :
    ∀ (n : Nat) (cur : Cell) (chain : List Cell) (st : State F) (fuel : Nat),
      walk (parentOf (st.ia "parent_ys") (st.ia "parent_xs") w) start n cur = some chain →
      (∀ c ∈ chain, inside h w c = true) → st.ctl = .run → RcShp h w costArr st →
      st.ienv (q "current_y") = cur.1 → st.ienv (q "current_x") = cur.2 →
      st.ienv (q "start_py") = start.1 → st.ienv (q "start_px") = start.2 → chain.length ≤ fuel →
      (exec fuel (rcWhile q costArr) st).ctl = .run ∧
      (exec fuel (rcWhile q costArr) st).fa =
        setS st.fa "path_img" (chainW (st.fa costArr) w chain.dropLast (st.fa "path_img")) ∧
      RcFrame q st (exec fuel (rcWhile q costArr) st)
  | 0, _, _, _, _, hw, _, _, _, _, _, _, _, _ => by simp [walk] at hw
  | n + 1, cur, chain, st, fuel, hw, hin, hst, hshp, hcy, hcx, hsy, hsx, hfuel => by
    simp only [walk] at hw
    by_cases hcs : cur = start
    · simp only [hcs, if_true, Option.some.injEq] at hw
      subst hw
      obtain ⟨fuel, rfl⟩ : ∃ f, fuel = f + 1 := ⟨fuel - 1, by simp at hfuel; omega⟩
      have hd : exec (fuel + 1) (rcWhile q costArr) st = st :=
        exec_while_exit (by simp [rcCond, BE.ok, IE.ok])
          (by simp [rcCond, BE.eval, IE.eval, cmpInt, hcy, hcx, hsy, hsx, hcs])
      rw [hd]
      exact ⟨hst, by simp [chainW, setS_self], rfl, rfl, rfl, rfl, rfl, fun _ _ => rfl⟩
    · simp only [hcs, if_false] at hw
      cases hp : parentOf (st.ia "parent_ys") (st.ia "parent_xs") w cur with
      | none => simp [hp] at hw
      | some p =>
        simp only [hp, Option.map_eq_some_iff] at hw
        obtain ⟨t, ht, rfl⟩ := hw
        have hcin := hin cur (by simp)
        have hcin' := (inside_iff h w cur).1 hcin
        have r1 : inRange cur.1 h = true := inRange_inside hcin'.1 hcin'.2.1
        have r2 : inRange cur.2 w = true := inRange_inside hcin'.2.2.1 hcin'.2.2.2
        have ho := off2_inside h w cur hcin
        unfold parentOf at hp
        split at hp
        · simp at hp
        · simp only [Option.some.injEq] at hp
          obtain ⟨fuel, rfl⟩ : ∃ f, fuel = f + 1 := ⟨fuel - 1, by simp at hfuel; omega⟩
          let st1 : State F :=
            { st with
              fa := setS st.fa "path_img"
                ((st.fa "path_img").set (cidx w cur) ((st.fa costArr).getD (cidx w cur) Fl.nan)),
              ienv := setS (setS (setS (setS st.ienv (q "parent_y") p.1) (q "parent_x") p.2)
                (q "current_y") p.1) (q "current_x") p.2 }
          have hb : exec fuel (rcLoopBody q costArr) st = st1 := by
            ilsimp [st1, rcLoopBody, hshp.sp, hshp.sy, hshp.sx, hshp.sc, hshp.ne, hcy, hcx, r1, r2, ho, hst, hq.inj,
              ← hp]
          have hc1 : (rcCond q).eval st = true := by
            simp only [rcCond, BE.eval, IE.eval, cmpInt, hcy, hcx, hsy, hsx, Bool.or_eq_true, decide_eq_true_eq]
            by_contra hno
            exact hcs (Prod.ext (by omega) (by omega))
          rw [rcWhile, exec_while_to (by simp [rcCond, BE.ok, IE.ok]) hc1 hb hst]
          have ih := rc_loop q hq costArr h w start n p t st1 fuel ht
            (fun c hc => hin c (by simp [hc])) hst
            ⟨hshp.sp, hshp.sy, hshp.sx, hshp.sc, hshp.ne⟩
            (by simp [st1, setS_apply, hq.inj]) (by simp [st1, setS_apply, hq.inj])
            (by simp [st1, setS_apply, hq.inj, hsy]) (by simp [st1, setS_apply, hq.inj, hsx])
            (by simp at hfuel; omega)
          obtain ⟨t', rfl⟩ := walk_head ht
          rw [rcWhile] at ih
          refine ⟨ih.1, ?_, ih.2.2.ia, ih.2.2.shp, ih.2.2.ext, ih.2.2.fenv, ih.2.2.benv, ?_⟩
          · rw [ih.2.1]
            simp [st1, setS_setS, setS_apply, hshp.ne, chainW]
          · intro x hx
            rw [ih.2.2.ienv x hx]
            simp only [rcI, List.mem_cons, List.not_mem_nil, or_false, not_or] at hx
            simp [st1, setS_apply, hx]

/-- inputs of `_reconstruct_path`: the scalar parameters name the cells `start` and `goal` -/
structure RcArgs (q : String → String) (start goal : Cell) (s : State F) : Prop where
  sy : s.ienv (q "start_py") = start.1
  sx : s.ienv (q "start_px") = start.2
  gy : s.ienv (q "goal_py") = goal.1
  gx : s.ienv (q "goal_px") = goal.2

/-- the goal has no back pointer: nothing is written -/
theorem rc_exec_none (q : String → String) (hq : Ren q) (costArr : String) (h w : Nat) (s : State F) (fuel : Nat)
    (hs : s.ctl = .run) (hshp : RcShp h w costArr s) (start goal : Cell) (ha : RcArgs q start goal s)
    (hg : inside h w goal = true)
    (hnone : parentOf (s.ia "parent_ys") (s.ia "parent_xs") w goal = none) :
    (exec fuel (rcSt q costArr) s).ctl = .ret ∧ (exec fuel (rcSt q costArr) s).fa = s.fa ∧
      RcFrame q s (exec fuel (rcSt q costArr) s) := by
  have hg' := (inside_iff h w goal).1 hg
  have r1 : inRange goal.1 h = true := inRange_inside hg'.1 hg'.2.1
  have r2 : inRange goal.2 w = true := inRange_inside hg'.2.2.1 hg'.2.2.2
  have ho := off2_inside h w goal hg
  unfold parentOf at hnone
  split at hnone
  · rename_i hc
    have hr : exec fuel (rcSt q costArr) s =
        { s with ienv := setS (setS s.ienv (q "current_x") goal.2) (q "current_y") goal.1, ctl := .ret } := by
      rcases hc with hc | hc
      · by_cases hx : (s.ia "parent_xs").getD (cidx w goal) 0 = -1
        · ilsimp [rcSt, hs, hq.inj, ha.gy, ha.gx, hshp.sx, hshp.sy, r1, r2, ho, hx]
        · ilsimp [rcSt, hs, hq.inj, ha.gy, ha.gx, hshp.sx, hshp.sy, r1, r2, ho, hx, hc]
      · ilsimp [rcSt, hs, hq.inj, ha.gy, ha.gx, hshp.sx, hshp.sy, r1, r2, ho, hc]
    rw [hr]
    refine ⟨rfl, rfl, rfl, rfl, rfl, rfl, rfl, ?_⟩
    intro x hx
    simp only [rcI, List.mem_cons, List.not_mem_nil, or_false, not_or] at hx
    simp [setS_apply, hx]
  · simp at hnone

/-- the goal has a back pointer and the model's walk over the back pointers reaches `start`: the program writes
    `cost[c]` to `path_img[c]` for the cells of the walk (start first, then from the goal backwards) and stops -/
theorem rc_exec_some (q : String → String) (hq : Ren q) (costArr : String) (h w : Nat) (s : State F) (fuel : Nat)
    (hs : s.ctl = .run) (hshp : RcShp h w costArr s) (start goal : Cell) (ha : RcArgs q start goal s)
    (hsome : parentOf (s.ia "parent_ys") (s.ia "parent_xs") w goal ≠ none)
    (n : Nat) (chain : List Cell)
    (hw : walk (parentOf (s.ia "parent_ys") (s.ia "parent_xs") w) start n goal = some chain)
    (hin : ∀ c ∈ chain, inside h w c = true) (hfuel : chain.length ≤ fuel) :
    (exec fuel (rcSt q costArr) s).ctl = .ret ∧
      (exec fuel (rcSt q costArr) s).fa =
        setS s.fa "path_img" (chainW (s.fa costArr) w (start :: chain.dropLast) (s.fa "path_img")) ∧
      RcFrame q s (exec fuel (rcSt q costArr) s) := by
  obtain ⟨t, rfl⟩ := walk_head hw
  have hg := hin goal (by simp)
  have hlast := walk_last hw
  have hsin : inside h w start = true := hin start (List.mem_of_getLast? hlast)
  have hg' := (inside_iff h w goal).1 hg
  have r1 : inRange goal.1 h = true := inRange_inside hg'.1 hg'.2.1
  have r2 : inRange goal.2 w = true := inRange_inside hg'.2.2.1 hg'.2.2.2
  have ho := off2_inside h w goal hg
  have hs' := (inside_iff h w start).1 hsin
  have r3 : inRange start.1 h = true := inRange_inside hs'.1 hs'.2.1
  have r4 : inRange start.2 w = true := inRange_inside hs'.2.2.1 hs'.2.2.2
  have ho' := off2_inside h w start hsin
  have hpp : (s.ia "parent_xs").getD (cidx w goal) 0 ≠ -1 ∧ (s.ia "parent_ys").getD (cidx w goal) 0 ≠ -1 := by
    unfold parentOf at hsome
    split at hsome
    · exact absurd rfl hsome
    · rename_i hc; simp only [not_or] at hc; exact ⟨hc.2, hc.1⟩
  let s2 : State F :=
    { s with ienv := setS (setS s.ienv (q "current_x") goal.2) (q "current_y") goal.1,
             fa := setS s.fa "path_img"
               ((s.fa "path_img").set (cidx w start) ((s.fa costArr).getD (cidx w start) Fl.nan)),
             ctl := .run }
  have hl := rc_loop q hq costArr h w start n goal (goal :: t) s2 fuel hw hin rfl
    ⟨hshp.sp, hshp.sy, hshp.sx, hshp.sc, hshp.ne⟩ (by simp [s2, setS_apply, hq.inj]) (by simp [s2, setS_apply, hq.inj])
    (by simp [s2, setS_apply, hq.inj, ha.sy]) (by simp [s2, setS_apply, hq.inj, ha.sx]) hfuel
  have hr : exec fuel (rcSt q costArr) s = { exec fuel (rcWhile q costArr) s2 with ctl := .ret } := by
    have hl1 := hl.1
    simp only [s2] at hl1
    ilsimp [rcSt, s2, hs, hq.inj, ha.gy, ha.gx, ha.sy, ha.sx, hshp.sx, hshp.sy, hshp.sp, hshp.sc, r1, r2, r3, r4, ho,
      ho', hpp.1, hpp.2, hl1]
  rw [hr]
  refine ⟨rfl, ?_, hl.2.2.ia, hl.2.2.shp, hl.2.2.ext, hl.2.2.fenv, hl.2.2.benv, ?_⟩
  · show (exec fuel (rcWhile q costArr) s2).fa = _
    rw [hl.2.1]
    simp [s2, setS_setS, setS_apply, hshp.ne, chainW]
  · intro x hx
    show (exec fuel (rcWhile q costArr) s2).ienv x = _
    rw [hl.2.2.ienv x hx]
    simp only [rcI, List.mem_cons, List.not_mem_nil, or_false, not_or] at hx
    simp [s2, setS_apply, hx]

theorem mem_start_dropLast {chain : List Cell} {start : Cell} (hl : chain.getLast? = some start) (c : Cell) :
    c ∈ start :: chain.dropLast ↔ c ∈ chain := by
  have : chain = chain.dropLast ++ [start] := by
    have := List.dropLast_append_getLast? start hl
    exact this.symm
  constructor
  · intro hc
    rw [this]
    rcases List.mem_cons.1 hc with rfl | hc
    · simp
    · simp [hc]
  · intro hc
    rw [this] at hc
    rcases List.mem_append.1 hc with hc | hc
    · simp [hc]
    · simp at hc; simp [hc]

/-- **`Gen.IL.reconstructPath` writes exactly the chain of the model's parent walk.**  Inputs: four `h × w` arrays,
    the back pointers read by `parentOf`, the goal has a back pointer, and `AStar.walk` from `goal` reaches `start`
    within some fuel `n` visiting `chain` (cells of the raster).  With `while`-fuel `≥ chain.length` the program ends
    by `return`; afterwards `path_img[c] = cost[c]` for `c ∈ chain`, every other cell of `path_img` is unchanged,
    and no other array is written. -/
theorem reconstructPath_refines (h w : Nat) (s : State F) (fuel : Nat) (hs : s.ctl = .run)
    (hshp : RcShp h w "cost" s) (hlen : (s.fa "path_img").length = h * w) (start goal : Cell)
    (ha : RcArgs (fun a => a) start goal s)
    (hsome : parentOf (s.ia "parent_ys") (s.ia "parent_xs") w goal ≠ none)
    (n : Nat) (chain : List Cell)
    (hw : walk (parentOf (s.ia "parent_ys") (s.ia "parent_xs") w) start n goal = some chain)
    (hin : ∀ c ∈ chain, inside h w c = true) (hfuel : chain.length ≤ fuel) :
    let r := Gen.IL.reconstructPath.run s fuel
    r.ctl = .ret ∧ r.ia = s.ia ∧ (∀ a, a ≠ "path_img" → r.fa a = s.fa a) ∧
      (r.fa "path_img").length = h * w ∧
      ∀ c, inside h w c = true → ∀ d, (r.fa "path_img").getD (cidx w c) d =
        if c ∈ chain then (s.fa "cost").getD (cidx w c) Fl.nan else (s.fa "path_img").getD (cidx w c) d := by
  have hr := rc_exec_some (fun a => a) Ren.id "cost" h w s fuel hs hshp start goal ha hsome n chain hw hin hfuel
  have hlast := walk_last hw
  have hsin : inside h w start = true := hin start (List.mem_of_getLast? hlast)
  simp only [Prog.run, reconstructPath_body]
  refine ⟨hr.1, hr.2.2.ia, ?_, ?_, ?_⟩
  · intro a ha'; rw [hr.2.1]; simp [setS_apply, ha']
  · rw [hr.2.1]; simp [chainW_length, hlen]
  · intro c hc d
    rw [hr.2.1]
    simp only [setS_same]
    rw [chainW_getD _ h w _ _ hlen (fun x hx => by
      rcases List.mem_cons.1 hx with rfl | hx
      · exact hsin
      · exact hin x (List.dropLast_subset _ hx)) c hc d]
    simp only [mem_start_dropLast hlast]

/-- `Gen.IL.reconstructPath` when the goal has no back pointer: returns without writing anything -/
theorem reconstructPath_refines_none (h w : Nat) (s : State F) (fuel : Nat) (hs : s.ctl = .run)
    (hshp : RcShp h w "cost" s) (start goal : Cell) (ha : RcArgs (fun a => a) start goal s)
    (hg : inside h w goal = true)
    (hnone : parentOf (s.ia "parent_ys") (s.ia "parent_xs") w goal = none) :
    let r := Gen.IL.reconstructPath.run s fuel
    r.ctl = .ret ∧ r.ia = s.ia ∧ r.fa = s.fa := by
  have hr := rc_exec_none (fun a => a) Ren.id "cost" h w s fuel hs hshp start goal ha hg hnone
  simp only [Prog.run, reconstructPath_body]
  exact ⟨hr.1, hr.2.2.ia, hr.2.1⟩

end XrsVerif.IL
