import XrsVerif.Proofs.ILViewshedFixRot
/-
  Proofs/ILViewshedDelPass.lean -- `_delete_from_tree` up to the colour fix-up, *in the form the code has it*: after
  the splice, four passes over the ancestors of the spliced-out node `y` (innermost first):

    L1   while the ancestor's stored maximum equals `minv y`: recompute it from its children, else stop;
    F1   recompute `y`'s parent (or `x`, `y`'s only child, when `y` was the root);
    C    (successor case) `z` gets `y`'s content, its maximum is recomputed;
    L2   (successor case) every ancestor of `z`: the tie test, or raised to the child's maximum.

  * model level: the passes over a tree zipper (`List (TFr α)`), with the code's operand orders and the code's `==`
    as a parameter `eqf` -- `delPassT`; generic in the number type (NaN, ±0, ties included).  That this is the hand
    model's one-pass recursion `del` / `ancestor` (Model/Viewshed.lean) over a linear order is
    `delPassT_eq_del` (Proofs/ILViewshedDelModel.lean);
  * array level: `scanArr` = a pass that walks up a context and overwrites the stored maximum of each frame row with
    a value computed from the current arrays; `absCtx_scanArr`: its abstraction is the model-level pass `scanT`.
-/
set_option linter.unusedSectionVars false
set_option linter.unusedVariables false
set_option linter.unusedSimpArgs false
namespace XrsVerif.ILVs
open XrsVerif XrsVerif.IL XrsVerif.Viewshed

/-! ### the passes on a tree zipper -/
section model
variable {α : Type} [LT α] [DecidableLT α] [LE α] [DecidableLE α]

def TFr.mx : TFr α → α
  | .L _ mx _ _ => mx
  | .R _ _ mx _ => mx

def TFr.nd : TFr α → Node α
  | .L n _ _ _ => n
  | .R _ n _ _ => n

def TFr.setMx (m : α) : TFr α → TFr α
  | .L n _ c r => .L n m c r
  | .R l n _ c => .R l n m c

def TFr.setNd (nn : Node α) : TFr α → TFr α
  | .L _ mx c r => .L nn mx c r
  | .R l _ mx c => .R l nn mx c

/-- the stored maxima of the two children (left, right) of a frame's node, `cm` the one on the path side -/
def TFr.kids (S : α) (cm : α) : TFr α → α × α
  | .L _ _ _ r => (cm, mxOf S r)
  | .R l _ _ _ => (mxOf S l, cm)

/-- the recomputation of the loops L1 / L2: `if left > right: m = left else: m = right; if minv > m: m = minv` -/
def TFr.recompL (S : α) (cm : α) (fr : TFr α) : α :=
  mx2 (minv fr.nd) (mx2 (fr.kids S cm).1 (fr.kids S cm).2)

/-- the recomputation of F1 / C: `tmp = max(left, right); if tmp > minv: m = tmp else: m = minv` -/
def TFr.recompF (S : α) (cm : α) (fr : TFr α) : α :=
  mx2 (mx2 (fr.kids S cm).1 (fr.kids S cm).2) (minv fr.nd)

/-- a pass up the zipper: `step cm fr` = the new maximum of the frame's node (`cm` the current maximum of the
    child below), `none` = the pass stops (`break`) -/
def scanT (step : α → TFr α → Option α) : α → List (TFr α) → List (TFr α)
  | _, [] => []
  | cm, fr :: rest =>
    match step cm fr with
    | none => fr :: rest
    | some m => fr.setMx m :: scanT step m rest

/-- loop L1 at one ancestor -/
def l1Step (eqf : α → α → Bool) (S : α) (yv : α) (cm : α) (fr : TFr α) : Option α :=
  if eqf fr.mx yv then some (fr.recompL S cm) else none

/-- loop L2 at one ancestor -/
def l2Step (eqf : α → α → Bool) (S : α) (zg xpr : α) (cm : α) (fr : TFr α) : Option α :=
  some (if eqf fr.mx zg then
      (if !(eqf (minv fr.nd) zg) && !(eqf (fr.kids S cm).1 zg && eqf xpr zg) then fr.recompL S cm else fr.mx)
    else (if fr.mx < cm then cm else fr.mx))

/-- passes C and L2: `j` frames up sits `z`; it gets `y`'s content `yn` and a recomputed maximum, then L2 runs
    over its ancestors (`cm` = the current maximum of the child below) -/
def cl2T (eqf : α → α → Bool) (S : α) (yn : Node α) (xpr : α) : Nat → α → List (TFr α) → List (TFr α)
  | _, _, [] => []
  | 0, cm, zf :: above =>
    let m := (zf.setNd yn).recompF S cm
    (zf.setNd yn).setMx m :: scanT (l2Step eqf S (minv zf.nd) xpr) m above
  | j + 1, _, fr :: rest => fr :: cl2T eqf S yn xpr j fr.mx rest

/-- the maximum stored at the right child of `x`'s parent after the splice (`x_parent_right` of loop L2) -/
def xprOf (S : α) (xT : Tree α) : List (TFr α) → α
  | [] => S
  | .L _ _ _ r :: _ => mxOf S r
  | .R _ _ _ _ :: _ => mxOf S xT

/-- loop L1 and the recomputation F1: `x`'s subtree and the ancestors of `y` afterwards -/
def l1f1T (eqf : α → α → Bool) (S : α) (xT : Tree α) (yn : Node α) (frames : List (TFr α)) : Tree α × List (TFr α) :=
  match scanT (l1Step eqf S (minv yn)) (mxOf S xT) frames with
  | [] => (refresh S xT, [])
  | f :: rest => (xT, f.setMx (f.recompF S (mxOf S xT)) :: rest)

/-- **`_delete_from_tree` after the splice, up to the colour fix-up**: `xT` = the subtree of `x` (the only child of
    the spliced-out node `y`), `yn` = `y`'s content, `frames` = the ancestors of `y` (innermost first),
    `jz = some j` when `z ≠ y` sits `j` frames up.  Returns `x`'s subtree and the ancestors afterwards. -/
def delPassT (eqf : α → α → Bool) (S : α) (xT : Tree α) (yn : Node α) (frames : List (TFr α)) (jz : Option Nat) :
    Tree α × List (TFr α) :=
  match jz with
  | none => l1f1T eqf S xT yn frames
  | some j =>
    ((l1f1T eqf S xT yn frames).1,
      cl2T eqf S yn (xprOf S xT (l1f1T eqf S xT yn frames).2) j (mxOf S xT) (l1f1T eqf S xT yn frames).2)

/-- the current maximum of the child below the frame that follows `below` -/
def lastMx : α → List (TFr α) → α
  | cm, [] => cm
  | _, fr :: rest => lastMx fr.mx rest

theorem cl2T_append (eqf : α → α → Bool) (S : α) (yn : Node α) (xpr : α) : ∀ (below : List (TFr α)) (cm : α)
    (zf : TFr α) (above : List (TFr α)),
    cl2T eqf S yn xpr below.length cm (below ++ zf :: above) =
      below ++ ((zf.setNd yn).setMx ((zf.setNd yn).recompF S (lastMx cm below))) ::
        scanT (l2Step eqf S (minv zf.nd) xpr) ((zf.setNd yn).recompF S (lastMx cm below)) above := by
  intro below
  induction below with
  | nil => intro cm zf above; rfl
  | cons fr rest ih =>
    intro cm zf above
    simp only [List.length_cons, List.cons_append, cl2T, lastMx, ih]

theorem scanT_length (step : α → TFr α → Option α) : ∀ (frs : List (TFr α)) (cm : α),
    (scanT step cm frs).length = frs.length := by
  intro frs
  induction frs with
  | nil => intro cm; rfl
  | cons fr rest ih =>
    intro cm
    simp only [scanT]
    split
    · rfl
    · simp [ih]

end model

/-! ### a pass on the arrays -/
section arrays
variable {F : Type} [Fl F]

/-- the sibling subtree of a frame -/
def Fr.sib : Fr → Sh
  | .L _ r => r
  | .R l _ => l

theorem ctxIdxs_cons (fr : Fr) (rest : Ctx) : ctxIdxs (fr :: rest) = fr.idx :: (fr.sib.idxs ++ ctxIdxs rest) := by
  cases fr <;> rfl

/-- the code's `==` on stored numbers -/
def feq (a b : Fv F) : Bool := Fl.eq a.v b.v

/-- a pass up a context: the stored maximum of each frame row is overwritten with `step` of the current maximum
    of the child below (pointer `c`) and the frame read off the current arrays -/
def scanArr (step : Fv F → TFr (Fv F) → Option (Fv F)) (n : Nat) (N : List Int) : List F → Int → Ctx → List F
  | V, _, [] => V
  | V, c, fr :: rest =>
    match step (mxAt V n c) (absFr V N fr) with
    | none => V
    | some m => scanArr step n N (V.set (fr.idx * 8 + 7) m.v) (fr.idx : Int) rest

theorem scanArr_length (step : Fv F → TFr (Fv F) → Option (Fv F)) (n : Nat) (N : List Int) : ∀ (ctx : Ctx) (V : List F) (c : Int),
    (scanArr step n N V c ctx).length = V.length := by
  intro ctx
  induction ctx with
  | nil => intro V c; rfl
  | cons fr rest ih =>
    intro V c
    simp only [scanArr]
    split
    · rfl
    · rw [ih]; simp

/-- only the stored maxima of frame rows change -/
theorem scanArr_other (step : Fv F → TFr (Fv F) → Option (Fv F)) (n : Nat) (N : List Int) : ∀ (ctx : Ctx) (V : List F) (c : Int),
    (∀ fr ∈ ctx, fr.idx * 8 + 7 < V.length) →
    ∀ i k, k < 8 → (i ∉ ctx.map Fr.idx ∨ k ≠ 7) → vAt (scanArr step n N V c ctx) i k = vAt V i k := by
  intro ctx
  induction ctx with
  | nil => intro V c _ i k _ _; rfl
  | cons fr rest ih =>
    intro V c hlen i k hk hik
    simp only [scanArr]
    split
    · rfl
    · rename_i m hm
      rw [ih _ _ (fun f hf => by simp; exact hlen f (List.mem_cons_of_mem _ hf)) i k hk
        (by rcases hik with h | h
            · exact Or.inl (fun hh => h (by simp [hh]))
            · exact Or.inr h)]
      rw [vAt_set _ _ _ _ _ _ (by decide) hk (hlen fr List.mem_cons_self)]
      have : ¬ (i = fr.idx ∧ k = 7) := by
        rintro ⟨rfl, rfl⟩
        rcases hik with h | h
        · exact h (by simp)
        · exact h rfl
      simp [this]

theorem absFr_mx (V : List F) (N : List Int) (fr : Fr) : (absFr V N fr).mx = vAt V fr.idx 7 := by cases fr <;> rfl

theorem absFr_setMx (V : List F) (N : List Int) (fr : Fr) (m : Fv F) (hlen : fr.idx * 8 + 7 < V.length)
    (hd : fr.idx ∉ fr.sib.idxs) :
    absFr (V.set (fr.idx * 8 + 7) m.v) N fr = (absFr V N fr).setMx m := by
  cases fr with
  | L i r =>
    have hs := SetMax.set V i m hlen
    simp only [absFr, TFr.setMx, Fr.idx, hs.nodeAt, hs.2.2.1]
    rw [hs.absT N r hd]
  | R l i =>
    have hs := SetMax.set V i m hlen
    simp only [absFr, TFr.setMx, Fr.idx, hs.nodeAt, hs.2.2.1]
    rw [hs.absT N l hd]

/-- **a pass on the arrays is the pass on the zipper** -/
theorem absCtx_scanArr (step : Fv F → TFr (Fv F) → Option (Fv F)) (n : Nat) (N : List Int) : ∀ (ctx : Ctx) (V : List F) (c : Int),
    (ctxIdxs ctx).Nodup → (∀ i ∈ ctxIdxs ctx, i * 8 + 7 < V.length) →
    absCtx (scanArr step n N V c ctx) N ctx = scanT step (mxAt V n c) (absCtx V N ctx) := by
  intro ctx
  induction ctx with
  | nil => intro V c _ _; rfl
  | cons fr rest ih =>
    intro V c hnd hlen
    have hfrmem : fr.idx ∈ ctxIdxs (fr :: rest) := by rw [ctxIdxs_cons]; simp
    have hlenfr : fr.idx * 8 + 7 < V.length := hlen _ hfrmem
    have hnd' : (fr.idx :: (fr.sib.idxs ++ ctxIdxs rest)).Nodup := by
      rw [← ctxIdxs_cons]; exact hnd
    have hnd2 := List.nodup_cons.mp hnd'
    have hfr_sib : fr.idx ∉ fr.sib.idxs := fun h => hnd2.1 (by simp [h])
    have hfr_rest : fr.idx ∉ ctxIdxs rest := fun h => hnd2.1 (by simp [h])
    have hnd_rest : (ctxIdxs rest).Nodup := (List.nodup_append.mp hnd2.2).2.1
    simp only [scanArr, absCtx, List.map_cons, scanT]
    cases hstep : step (mxAt V n c) (absFr V N fr) with
    | none => rfl
    | some m =>
      simp only []
      have hs := SetMax.set V fr.idx m hlenfr
      have hrest : absCtx (V.set (fr.idx * 8 + 7) m.v) N rest = absCtx V N rest := hs.absCtx N rest hfr_rest
      have hmx : mxAt (V.set (fr.idx * 8 + 7) m.v) n (fr.idx : Int) = m := by
        simp only [mxAt, rowOf_nat]; exact hs.2.2.1
      have ih' := ih (V.set (fr.idx * 8 + 7) m.v) (fr.idx : Int) hnd_rest
        (fun i hi => by simp; exact hlen i (by rw [ctxIdxs_cons]; simp [hi]))
      rw [hmx] at ih'
      simp only [absCtx] at ih' hrest
      rw [hrest] at ih'
      rw [ih']
      congr 1
      -- the frame itself: later steps do not touch its row
      have hlen2 : ∀ f ∈ rest, f.idx * 8 + 7 < (V.set (fr.idx * 8 + 7) m.v).length := fun f hf => by
        simp; exact hlen _ (by
          have : f.idx ∈ ctxIdxs rest := (frameRows_sublist rest).subset (List.mem_map_of_mem hf)
          rw [ctxIdxs_cons]; simp [this])
      have hVeq : ∀ i, i ∉ rest.map Fr.idx → ∀ k, k < 8 →
          vAt (scanArr step n N (V.set (fr.idx * 8 + 7) m.v) (fr.idx : Int) rest) i k =
            vAt (V.set (fr.idx * 8 + 7) m.v) i k :=
        fun i hi k hk => scanArr_other step n N rest _ _ hlen2 i k hk (Or.inl hi)
      have hnotin : ∀ i, i ∉ ctxIdxs rest → i ∉ rest.map Fr.idx :=
        fun i hi h => hi ((frameRows_sublist rest).subset h)
      have hfrEq : absFr (scanArr step n N (V.set (fr.idx * 8 + 7) m.v) (fr.idx : Int) rest) N fr =
          absFr (V.set (fr.idx * 8 + 7) m.v) N fr := by
        have hsub : ∀ j ∈ fr.sib.idxs, j ∉ ctxIdxs rest := fun j hj h =>
          (List.nodup_append.mp hnd2.2).2.2 j hj j h rfl
        cases fr with
        | L i r =>
          simp only [absFr, nodeAt, hVeq i (hnotin i hfr_rest) _ (by decide : 0 < 8), hVeq i (hnotin i hfr_rest) _ (by decide : 1 < 8),
            hVeq i (hnotin i hfr_rest) _ (by decide : 2 < 8), hVeq i (hnotin i hfr_rest) _ (by decide : 3 < 8),
            hVeq i (hnotin i hfr_rest) _ (by decide : 4 < 8), hVeq i (hnotin i hfr_rest) _ (by decide : 5 < 8),
            hVeq i (hnotin i hfr_rest) _ (by decide : 6 < 8), hVeq i (hnotin i hfr_rest) _ (by decide : 7 < 8)]
          rw [absT_congr r (fun j hj => ⟨fun k hk => hVeq j (hnotin j (hsub j hj)) k hk, rfl⟩)]
        | R l i =>
          simp only [absFr, nodeAt, hVeq i (hnotin i hfr_rest) _ (by decide : 0 < 8), hVeq i (hnotin i hfr_rest) _ (by decide : 1 < 8),
            hVeq i (hnotin i hfr_rest) _ (by decide : 2 < 8), hVeq i (hnotin i hfr_rest) _ (by decide : 3 < 8),
            hVeq i (hnotin i hfr_rest) _ (by decide : 4 < 8), hVeq i (hnotin i hfr_rest) _ (by decide : 5 < 8),
            hVeq i (hnotin i hfr_rest) _ (by decide : 6 < 8), hVeq i (hnotin i hfr_rest) _ (by decide : 7 < 8)]
          rw [absT_congr l (fun j hj => ⟨fun k hk => hVeq j (hnotin j (hsub j hj)) k hk, rfl⟩)]
      rw [hfrEq]
      exact absFr_setMx V N fr m hlenfr hfr_sib

end arrays
end XrsVerif.ILVs
