import XrsVerif.Proofs.ILProxMerge
import XrsVerif.Proofs.ILProxSweep
/-
  Proofs/ILProxCall.lean -- step 4 (first part): inside the generated `_process_numpy`, an inlined call of the line
  function (argument passing + `.scope (lineBody (NL k))`) refines `Prox.sweepN`.
-/
namespace XrsVerif.IL.Px
open XrsVerif XrsVerif.Prox
variable {F : Type} [Fl F]
set_option linter.unusedSectionVars false
set_option linter.unusedSimpArgs false
attribute [-simp] List.getD_eq_getElem?_getD
attribute [local simp] List.getD_cons_zero List.getD_cons_succ

/-! ### names of the caller and names of the inlined callees never clash -/

theorem outer_ne_line (v : String) (hv : v.toList.head? ≠ some '_') (k : String) (a : LV) : v ≠ (NL k).nm a := by
  intro h
  apply hv
  have := congrArg (fun s => s.toList.head?) h
  simpa [NL, Names.pfx, String.append_assoc] using this

theorem outer_ne_dir (v : String) (hv : v.toList.head? ≠ some '_') (k x : String) : v ≠ D k ++ x := by
  intro h
  apply hv
  have := congrArg (fun s => s.toList.head?) h
  simpa [D, String.append_assoc] using this

/-! ### an inlined call of `_process_proximity_line` -/

/-- what an inlined call leaves unchanged -/
structure CallFrame (N : Names) (s r : State F) : Prop where
  shp : r.shp = s.shp
  ext : r.ext = s.ext
  ienv : ∀ v, (∀ a : LV, v ≠ N.nm a) → r.ienv v = s.ienv v
  fenv : ∀ v, (∀ a : LV, v ≠ N.nm a) → r.fenv v = s.fenv v
  benv : ∀ v, (∀ a : LV, v ≠ N.nm a) → r.benv v = s.benv v
  ia : ∀ a, a ≠ "pan_near_x" → a ≠ "pan_near_y" → a ≠ "nearest_xs" → a ≠ "nearest_ys" → r.ia a = s.ia a
  fa : ∀ a, a ≠ "line_proximity" → r.fa a = s.fa a

/-- `_distance` between two cells of the coordinate grids of `_process_numpy`, squared -/
def pnDist2 (W : Nat) (s : State F) (tr tc r p : Nat) : F :=
  Fl.mul
    (s.ext "_distance" ((s.fa "x_coords").getD (tr * W + tc) Fl.nan) ((s.fa "x_coords").getD (r * W + p) Fl.nan)
      ((s.fa "y_coords").getD (tr * W + tc) Fl.nan) ((s.fa "y_coords").getD (r * W + p) Fl.nan) (s.ienv "distance_metric"))
    (s.ext "_distance" ((s.fa "x_coords").getD (tr * W + tc) Fl.nan) ((s.fa "x_coords").getD (r * W + p) Fl.nan)
      ((s.fa "y_coords").getD (tr * W + tc) Fl.nan) ((s.fa "y_coords").getD (r * W + p) Fl.nan) (s.ienv "distance_metric"))

/-- the state after argument passing -/
def callSt (N : Names) (st : State F) (fwd : Bool) : State F :=
  { st with
    benv := setS st.benv (N.nm .isForward) fwd
    ienv := setS (setS (setS st.ienv (N.nm .lineId) (st.ienv "line")) (N.nm .width) (st.ienv "width"))
      (N.nm .distanceMetric) (st.ienv "distance_metric")
    fenv := setS st.fenv (N.nm .maxDistance) (st.fenv "max_distance") }

/-- what a line of `_process_numpy` provides to an inlined call on line `n` -/
structure CallCtx (c : Cfg) (emb : Nat → F) (tg : Nat → Nat → Bool) (n : Nat) (st : State F) : Prop where
  run : st.ctl = .run
  hn : n < c.H
  line : st.ienv "line" = n
  width : st.ienv "width" = c.W
  px : st.shp "pan_near_x" = [c.W]
  py : st.shp "pan_near_y" = [c.W]
  nx : st.shp "nearest_xs" = [c.W]
  ny : st.shp "nearest_ys" = [c.W]
  lp : st.shp "line_proximity" = [c.W]
  scan : st.shp "scan_line" = [c.W]
  xc : st.shp "x_coords" = [c.H, c.W]
  yc : st.shp "y_coords" = [c.H, c.W]
  tv : st.shp "target_values" = [(st.fa "target_values").length]
  arith : Arith c emb (st.fenv "max_distance")
  dist : ∀ tr tc r p, tr < c.H → tc < c.W → r < c.H → p < c.W → pnDist2 c.W st tr tc r p = emb (dist2 c tr tc r p)
  tgt : ∀ p, p < c.W → targetTest ((st.fa "scan_line").getD p Fl.nan) (st.fa "target_values") = tg n p

variable {c : Cfg} {emb : Nat → F} {tg : Nat → Nat → Bool}

/-- **an inlined call of the line function refines `Prox.sweepN`** -/
theorem callLine_refines (k : String) (fwdE : BE) (fwd : Bool)
    (hE : (fwdE = .tt ∧ fwd = true) ∨ (fwdE = .ff ∧ fwd = false)) (rest : St)
    (st : State F) (fuel n : Nat) (m0 : LineSt) (cx : CallCtx c emb tg n st) (rel : LineRel c emb st m0) :
    ∃ st' : State F, exec fuel (callLine (NL k) fwdE rest) st = exec fuel rest st' ∧ st'.ctl = .run ∧
      LineRel c emb st' (sweepN c tg n fwd m0 c.W) ∧ CallFrame (NL k) st st' := by
  have hN := NL_wf k
  have hne := hN.nm_eq
  have hs := cx.run
  -- argument passing
  have h1 : exec fuel (callLine (NL k) fwdE rest) st = exec fuel (.seq (.scope (lineBody (NL k))) rest) (callSt (NL k) st fwd) := by
    have hw1 := outer_ne_line "width" (by decide) k
    have hw2 := outer_ne_line "distance_metric" (by decide) k
    unfold callLine
    generalize St.seq (.scope (lineBody (NL k))) rest = R
    rcases hE with ⟨rfl, rfl⟩ | ⟨rfl, rfl⟩ <;>
      simp [callSt, exec, exec_seq, hs, BE.ok, BE.eval, IE.ok, IE.eval, FE.ok, FE.eval, setS, hw1, hw2]
  rw [h1]
  generalize hst1 : callSt (NL k) st fwd = st1
  have e : st1.ctl = .run ∧ st1.shp = st.shp ∧ st1.ia = st.ia ∧ st1.fa = st.fa ∧ st1.ext = st.ext ∧
      st1.benv ((NL k).nm .isForward) = fwd ∧ st1.ienv ((NL k).nm .lineId) = n ∧ st1.ienv ((NL k).nm .width) = c.W ∧
      st1.ienv ((NL k).nm .distanceMetric) = st.ienv "distance_metric" ∧
      st1.fenv ((NL k).nm .maxDistance) = st.fenv "max_distance" ∧
      (∀ v, (∀ a : LV, v ≠ (NL k).nm a) → st1.ienv v = st.ienv v ∧ st1.fenv v = st.fenv v ∧ st1.benv v = st.benv v) := by
    subst hst1
    refine ⟨hs, rfl, rfl, rfl, rfl, by simp [callSt, setS], by simp [callSt, setS, hne, cx.line],
      by simp [callSt, setS, hne, cx.width], by simp [callSt, setS, hne], by simp [callSt, setS], ?_⟩
    intro v hv
    simp [callSt, setS, hv .isForward, hv .lineId, hv .width, hv .distanceMetric, hv .maxDistance]
  obtain ⟨c1, sh1, ia1, fa1, ex1, b1, l1, w1, m1, x1, o1⟩ := e
  have env : LineEnv (NL k) c emb tg n fwd st1 := by
    refine ⟨⟨by rw [sh1]; exact cx.px, by rw [sh1]; exact cx.py, by rw [sh1]; exact cx.nx, by rw [sh1]; exact cx.ny,
      by rw [sh1]; exact cx.lp, by rw [sh1]; exact cx.scan, by rw [sh1]; exact cx.xc, by rw [sh1]; exact cx.yc⟩,
      by rw [sh1, fa1]; exact cx.tv, cx.hn, l1, b1, w1, by rw [x1]; exact cx.arith, ?_, ?_⟩
    · intro tr tc r p h1 h2 h3 h4
      have := cx.dist tr tc r p h1 h2 h3 h4
      have hxs : (NL k).xs = "x_coords" := rfl
      have hys : (NL k).ys = "y_coords" := rfl
      simpa [cellDist2, cellDist, pnDist2, hxs, hys, fa1, ex1, m1] using this
    · intro p hp
      have := cx.tgt p hp
      have hsr : (NL k).src = "scan_line" := rfl
      have hvl : (NL k).vals = "target_values" := rfl
      simpa [hsr, hvl, fa1] using this
  obtain ⟨c2, f2, r2⟩ := lineBody_refines hN fuel st1 m0 c1 env (rel.congr ia1 fa1)
  have hsc : exec fuel (.scope (lineBody (NL k))) st1 = { exec fuel (lineBody (NL k)) st1 with ctl := .run } :=
    exec_scope_ret _ _ _ c2
  rw [exec_seq_run _ _ _ _ (by rw [hsc]), hsc]
  generalize exec fuel (lineBody (NL k)) st1 = st2 at c2 f2 r2
  refine ⟨{ st2 with ctl := .run }, rfl, rfl, r2.congr rfl rfl, ?_⟩
  refine ⟨by rw [← sh1]; exact f2.shp, by rw [← ex1]; exact f2.ext, ?_, ?_, ?_, ?_, ?_⟩
  · intro v hv; exact (f2.ienv v (fun a _ => hv a)).trans (o1 v hv).1
  · intro v hv; exact (f2.fenv v (fun a _ => hv a)).trans (o1 v hv).2.1
  · intro v hv; exact (f2.benv v (fun a _ => hv a)).trans (o1 v hv).2.2
  · intro a h1 h2 h3 h4; exact (f2.ia a h1 h2 h3 h4).trans (by rw [ia1])
  · intro a ha; exact (f2.fa a ha).trans (by rw [fa1])

end XrsVerif.IL.Px
