import XrsVerif.Proofs.Polygonize
import Mathlib.Data.Finset.Card
import Mathlib.Data.Finset.Prod
import Mathlib.Logic.Function.Iterate
import Mathlib.Tactic.Ring
/-
  Termination of the boundary follower (C15): the step function is injective on the boundary-edge
  states of a region, these form a finite set (at most 4·nx·ny), hence the orbit of the start state
  returns to it (pigeonhole), within the fuel that `follow` is given.
-/
set_option linter.unusedVariables false
namespace XrsVerif.Polygonize

/-- an injective self-map of a finite set brings every point back to itself within `card` steps -/
theorem orbit_returns {α : Type} [DecidableEq α] (f : α → α) (S : Finset α)
    (hS : ∀ a ∈ S, f a ∈ S) (hinj : ∀ a ∈ S, ∀ b ∈ S, f a = f b → a = b) (s : α) (hs : s ∈ S) :
    ∃ k, 0 < k ∧ k ≤ S.card ∧ f^[k] s = s := by
  have hmem : ∀ n, f^[n] s ∈ S := by
    intro n
    induction n with
    | zero => simpa using hs
    | succ n ih => rw [Function.iterate_succ_apply']; exact hS _ ih
  -- iterates are injective on S
  have hinjn : ∀ n, ∀ a ∈ S, ∀ b ∈ S, f^[n] a = f^[n] b → a = b := by
    intro n
    induction n with
    | zero => intro a _ b _ h; simpa using h
    | succ n ih =>
      intro a ha b hb h
      rw [Function.iterate_succ_apply, Function.iterate_succ_apply] at h
      exact hinj a ha b hb (ih _ (hS a ha) _ (hS b hb) h)
  obtain ⟨i, hi, j, hj, hne, heq⟩ :=
    Finset.exists_ne_map_eq_of_card_lt_of_maps_to (s := Finset.range (S.card + 1)) (t := S)
      (f := fun n => f^[n] s) (by simp) (fun n _ => hmem n)
  simp only [Finset.mem_range] at hi hj
  -- wlog i < j
  have key : ∀ i j, i < j → j < S.card + 1 → f^[i] s = f^[j] s → ∃ k, 0 < k ∧ k ≤ S.card ∧ f^[k] s = s := by
    intro i j hij hj heq
    refine ⟨j - i, by omega, by omega, ?_⟩
    have : f^[i] s = f^[i] (f^[j - i] s) := by
      rw [← Function.iterate_add_apply]; rw [show i + (j - i) = j by omega]; exact heq
    exact (hinjn i _ hs _ (hmem _) this).symm
  rcases Nat.lt_or_gt_of_ne hne with h | h
  · exact key i j h hj heq
  · exact key j i h hi heq.symm

instance (R : Int → Int → Bool) : DecidablePred (Valid R) := fun s => by unfold Valid; infer_instance

/-- every (pixel, heading) of an `nx × ny` raster -/
def allStates (nx ny : Nat) : Finset FSt :=
  ((Finset.range nx ×ˢ Finset.range ny) ×ˢ ({Dir.E, Dir.N, Dir.W, Dir.S} : Finset Dir)).image
    fun p => ⟨(p.1.1 : Int), (p.1.2 : Int), p.2⟩

/-- the boundary-edge states of a region inside the raster -/
def boundaryStates (R : Int → Int → Bool) (nx ny : Nat) : Finset FSt := (allStates nx ny).filter (Valid R)

theorem card_boundaryStates_le (R : Int → Int → Bool) (nx ny : Nat) :
    (boundaryStates R nx ny).card ≤ 4 * nx * ny := by
  unfold boundaryStates allStates
  refine (Finset.card_filter_le _ _).trans ((Finset.card_image_le).trans ?_)
  rw [Finset.card_product, Finset.card_product, Finset.card_range, Finset.card_range]
  have : ({Dir.E, Dir.N, Dir.W, Dir.S} : Finset Dir).card = 4 := by decide
  rw [this]; ring_nf; omega

theorem mem_boundaryStates {R : Int → Int → Bool} {nx ny : Nat}
    (hR : ∀ x y, R x y = true → 0 ≤ x ∧ x < nx ∧ 0 ≤ y ∧ y < ny) {s : FSt} (hs : Valid R s) :
    s ∈ boundaryStates R nx ny := by
  unfold boundaryStates allStates
  rw [Finset.mem_filter]
  refine ⟨?_, hs⟩
  obtain ⟨h0, h1, h2, h3⟩ := hR s.x s.y hs.1
  rw [Finset.mem_image]
  refine ⟨((s.x.toNat, s.y.toNat), s.d), ?_, ?_⟩
  · simp only [Finset.mem_product, Finset.mem_range]
    refine ⟨⟨by omega, by omega⟩, ?_⟩
    cases s.d <;> simp
  · obtain ⟨x, y, d⟩ := s
    simp only at h0 h1 h2 h3
    simp only [FSt.mk.injEq, and_true]
    constructor <;> omega

theorem followLoop_isSome (R : Int → Int → Bool) (nx ny : Nat) (hole : Bool) (start : FSt) :
    ∀ (fuel : Nat) (cur : FSt) (prev : Option Dir) (tr : Trace) (k : Nat), 0 < k → k ≤ fuel →
      (step R)^[k] cur = start → (followLoop R nx ny hole start fuel cur prev tr).isSome = true := by
  intro fuel
  induction fuel with
  | zero => intro cur prev tr k h0 hk; omega
  | succ fuel ih =>
    intro cur prev tr k h0 hk hit
    simp only [followLoop]
    split
    · rfl
    · rename_i hne
      have hk1 : k ≠ 1 := by
        intro h1; subst h1; simp at hit; exact hne hit
      refine ih _ _ _ (k - 1) (by omega) (by omega) ?_
      have : k = (k - 1) + 1 := by omega
      rw [this, Function.iterate_succ_apply] at hit
      exact hit

/-- `follow_terminates`: started on a boundary edge, the follower is back at its start after at most
    `4·nx·ny` iterations, so `follow` (fuel `4·nx·ny + 4`) returns a ring -/
theorem follow_isSome (nx ny : Nat) (regs : Nat → Nat) (ij : Nat) (hole : Bool)
    (hstart : Valid (inRegion nx ny regs (regs ij)) ⟨(ij % nx : Nat), (ij / nx : Nat), if hole then .W else .E⟩) :
    (follow nx ny regs ij hole).isSome = true := by
  have hR : ∀ x y, inRegion nx ny regs (regs ij) x y = true → 0 ≤ x ∧ x < nx ∧ 0 ≤ y ∧ y < ny := by
    intro x y h
    simp only [inRegion, Bool.and_eq_true, decide_eq_true_eq] at h
    omega
  obtain ⟨k, hk0, hk, hit⟩ := orbit_returns (step (inRegion nx ny regs (regs ij)))
    (boundaryStates (inRegion nx ny regs (regs ij)) nx ny)
    (fun a ha => mem_boundaryStates hR (step_valid _ a (Finset.mem_filter.mp ha).2))
    (fun a ha b hb h => step_injective _ a b (Finset.mem_filter.mp ha).2 (Finset.mem_filter.mp hb).2 h)
    _ (mem_boundaryStates hR hstart)
  have hfuel : k ≤ 4 * nx * ny + 4 := by
    have := card_boundaryStates_le (inRegion nx ny regs (regs ij)) nx ny; omega
  have := followLoop_isSome (inRegion nx ny regs (regs ij)) nx ny hole _ (4 * nx * ny + 4) _ none ⟨[], [], []⟩ k hk0 hfuel hit
  unfold follow
  simp only
  cases hfl : followLoop (inRegion nx ny regs (regs ij)) nx ny hole
      ⟨(ij % nx : Nat), (ij / nx : Nat), if hole then .W else .E⟩ (4 * nx * ny + 4)
      ⟨(ij % nx : Nat), (ij / nx : Nat), if hole then .W else .E⟩ none ⟨[], [], []⟩ with
  | none => rw [hfl] at this; simp at this
  | some tr => simp

end XrsVerif.Polygonize
