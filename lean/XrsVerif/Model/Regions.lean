/-
  Model of `xrspatial.zonal._area_connectivity` / `regions` (property C16).

  The labelling algorithm is written over an arbitrary finite "window graph":
    `cells : List α`          the cells in processing (raster) order,
    `nbrs  : α → List α`      the window of a cell, in window order (clamped at the border, so a
                              border cell may see itself),
    `data  : α → Option V`    cell values, `none` = NaN,
    `m     : V → V → Bool`    `m c a` = window value `a` is close to the centre value `c`
                              (`|a - c| <= atol + rtol*|c|` in the code; not assumed symmetric here).
  Labels are `Nat`; `0` = "not labelled" (`np.zeros_like`) and is also what the model keeps at NaN
  cells (the code stores NaN there; neither value is ever `> 0` nor equal to a label that is merged).

  pass 1: first *labelled* matching window cell in window order, else a fresh uid.
  pass 2: for every cell the labels of its matching window cells are *captured* (`area_window` is a
          copy), then merged pairwise towards the running minimum with a whole-raster relabel;
          the captured values go stale during the loop (`inner`).

  The grid instance (`gridCells`, `gridNbrs`) supplies raster order and the clamped 4/8 windows.
  No Mathlib import: linked into the driver.
-/
namespace XrsVerif.Regions

section generic
variable {α V : Type} [DecidableEq α]

/-- `out[p] = v` -/
def setL (lab : α → Nat) (p : α) (v : Nat) : α → Nat := fun q => if q = p then v else lab q

/-- whole-raster relabel `out[out == a] = b` -/
def replace (lab : α → Nat) (a b : Nat) : α → Nat := fun x => let v := lab x; if v = a then b else v

/-- window cell `q` matches the centre value `v` (a NaN window value never matches) -/
def matched (m : V → V → Bool) (data : α → Option V) (v : V) (q : α) : Bool :=
  match data q with
  | none => false
  | some w => m v w

/-- the matching window cells of `p`, in window order (`neighbor_matches`) -/
def matchesOf (nbrs : α → List α) (m : V → V → Bool) (data : α → Option V) (v : V) (p : α) : List α :=
  (nbrs p).filter (matched m data v)

/-- pass 1, one cell: state = (labels, next uid) -/
def step1 (nbrs : α → List α) (m : V → V → Bool) (data : α → Option V)
    (st : (α → Nat) × Nat) (p : α) : (α → Nat) × Nat :=
  match data p with
  | none => st
  | some v =>
    match (matchesOf nbrs m data v p).find? (fun q => 0 < st.1 q) with
    | some q => (setL st.1 p (st.1 q), st.2)
    | none => (setL st.1 p st.2, st.2 + 1)

def pass1 (cells : List α) (nbrs : α → List α) (m : V → V → Bool) (data : α → Option V) :
    (α → Nat) × Nat :=
  cells.foldl (step1 nbrs m data) (fun _ => 0, 1)

/-- one iteration of the pass-2 inner loop over the *captured* labels
    (`assigned_values_min` is the second component) -/
def inner (st : (α → Nat) × Option Nat) (a : Nat) : (α → Nat) × Option Nat :=
  match st with
  | (lab, none) => (lab, some a)
  | (lab, some mn) =>
    if mn = a then (lab, some mn)
    else if a < mn then (replace lab mn a, some a) else (replace lab a mn, some mn)

/-- pass 2, one cell.  The state is (labels, `assigned_values_min` left by the last processed
    cell); the second component is reset for every cell and only carried so that every step is
    computed eagerly when the model is executed (a bare function-valued state would be re-evaluated
    on every read). -/
def step2 (nbrs : α → List α) (m : V → V → Bool) (data : α → Option V)
    (st : (α → Nat) × Option Nat) (p : α) : (α → Nat) × Option Nat :=
  match data p with
  | none => st
  | some v => ((matchesOf nbrs m data v p).map st.1).foldl inner (st.1, none)

def pass2St (cells : List α) (nbrs : α → List α) (m : V → V → Bool) (data : α → Option V)
    (lab : α → Nat) : (α → Nat) × Option Nat :=
  cells.foldl (step2 nbrs m data) (lab, none)

def pass2 (cells : List α) (nbrs : α → List α) (m : V → V → Bool) (data : α → Option V)
    (lab : α → Nat) : α → Nat :=
  (pass2St cells nbrs m data lab).1

/-- final label function (meaningful at non-NaN cells of `cells`) -/
def label (cells : List α) (nbrs : α → List α) (m : V → V → Bool) (data : α → Option V) : α → Nat :=
  pass2 cells nbrs m data (pass1 cells nbrs m data).1

/-- the returned raster: NaN where the input is NaN, else the label -/
def result (cells : List α) (nbrs : α → List α) (m : V → V → Bool) (data : α → Option V) (p : α) :
    Option Nat :=
  match data p with
  | none => none
  | some _ => some (label cells nbrs m data p)

end generic

/-! ### the raster instance -/

/-- a window offset along one axis -/
inductive D | m | z | p
  deriving DecidableEq, Repr

/-- `max(k-1,0)`, `k`, `min(k+1,n-1)` -/
def clampAdd (n : Nat) (d : D) (k : Nat) : Nat :=
  match d with
  | .m => k - 1
  | .z => k
  | .p => min (k + 1) (n - 1)

/-- a cell is `(y, x)` -/
abbrev Cell := Nat × Nat

/-- window order of the code, as (dy, dx): NW, W, SW, N, S, NE, E, SE (rows grow downwards) -/
def window8 : List (D × D) :=
  [(.m, .m), (.z, .m), (.p, .m), (.m, .z), (.p, .z), (.m, .p), (.z, .p), (.p, .p)]

/-- W, N, S, E -/
def window4 : List (D × D) := [(.z, .m), (.m, .z), (.p, .z), (.z, .p)]

def window (n8 : Bool) : List (D × D) := if n8 then window8 else window4

def gridNbrs (rows cols : Nat) (n8 : Bool) (c : Cell) : List Cell :=
  (window n8).map fun d => (clampAdd rows d.1 c.1, clampAdd cols d.2 c.2)

/-- raster order -/
def gridCells (rows cols : Nat) : List Cell :=
  (List.range rows).flatMap fun y => (List.range cols).map fun x => (y, x)

/-- `_area_connectivity(data, n)` on a `rows × cols` raster -/
def regions {V : Type} (rows cols : Nat) (n8 : Bool) (m : V → V → Bool) (data : Cell → Option V) :
    Cell → Option Nat :=
  result (gridCells rows cols) (gridNbrs rows cols n8) m data

/-- the whole output raster in raster order, computed once (what the driver prints);
    `regionsList_eq` (Proofs/Regions.lean): it is `regions` mapped over the cells -/
def regionsList {V : Type} (rows cols : Nat) (n8 : Bool) (m : V → V → Bool) (data : Cell → Option V) :
    List (Option Nat) :=
  let cells := gridCells rows cols
  let nb := gridNbrs rows cols n8
  let st := pass2St cells nb m data (pass1 cells nb m data).1
  cells.map fun c => match data c with
    | none => none
    | some _ => some (st.1 c)

end XrsVerif.Regions
