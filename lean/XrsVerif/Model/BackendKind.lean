/-!
  Backend kinds (C10, "the output has the input's array backend"): the Dask branch of a wrapper must hand back a
  dask collection -- nothing computed, no NumPy kernel applied to the whole array -- on *every* path.

  * `Kind`    what a value is as far as the array backend is concerned: a dask collection (`lazy`), an array held
              in memory (`eager`: `numpy.ndarray`, the result of `.compute()` / `np.asarray` / a numba kernel), or no
              array at all (`scalar`).
  * `Rhs`     right-hand sides: a constructor of a known kind (`da.map_blocks(…)`, `x.map_overlap(…)`, `da.where(…)`
              are lazy; `x.compute()`, `np.asarray(x)`, `kernel(x)` are eager; `len(x)`, `x.shape` are scalars), a
              backend-preserving view of a variable (`x.astype(t)`, `x[…]`, `x.T`, `x.data`), an elementwise /
              `__array_function__`-dispatched operation (`a + b`, `np.where(c, a, b)`: a dask collection as soon as one
              operand is one), or something the translator knows nothing about (`any`).
  * `Prog`    structured programs with early `return`: assignments, two-way branches (condition abstracted), loops (any
              number of iterations), `ret`, and `halt` (`raise`: no result at all).
  * `Exec`    every run: either branch, any iteration count, any kind for `any`.
  * `bcheck`  the abstract checker: per variable the *set* of kinds it may have; returns the set of kinds of the values
              that may be returned.  `lazyOk` = that set is within `{lazy}`.

  Programs are generated from /repo's source by harness/facts_daskkind.py (`Gen/DaskKinds.lean`); the soundness theorem
  and its instances are in Props/C10.lean.  No Mathlib.
-/
namespace XrsVerif.BK

inductive Kind where
  | lazy      -- a dask collection: nothing computed yet
  | eager     -- an array held in memory
  | scalar    -- no array
  deriving Repr, DecidableEq, Inhabited

/-- kind of the result of an elementwise / dispatched operation on operands of the given kinds -/
def liftKind (ks : List Kind) : Kind :=
  if ks.contains .lazy then .lazy else if ks.contains .eager then .eager else .scalar

inductive Rhs where
  | const (k : Kind)
  | same (v : Nat)
  | lift (vs : List Nat)
  | any
  deriving Repr, DecidableEq, Inhabited

inductive Prog where
  | done                                    -- falls off the end of the block
  | halt                                    -- `raise`: the call yields no value
  | assign (d : Nat) (r : Rhs) (k : Prog)
  | ret (r : Rhs)                           -- `return e`
  | ite (p q : Prog) (k : Prog)             -- run `p` or `q`; whichever falls through continues with `k`
  | loop (b : Prog) (k : Prog)              -- run `b` any number of times, then `k`
  deriving Repr, Inhabited

/-- what the generator emits: a flat list per block -/
inductive Item where
  | assign (d : Nat) (r : Rhs)
  | ret (r : Rhs)
  | halt
  | ite (p q : Prog)
  | loop (b : Prog)
  deriving Repr, Inhabited

def Prog.ofItems : List Item → Prog
  | [] => .done
  | .assign d r :: rest => .assign d r (Prog.ofItems rest)
  | .ret r :: _ => .ret r
  | .halt :: _ => .halt
  | .ite p q :: rest => .ite p q (Prog.ofItems rest)
  | .loop b :: rest => .loop b (Prog.ofItems rest)

def Prog.size : Prog → Nat
  | .done => 0
  | .halt => 1
  | .assign _ _ k => 1 + k.size
  | .ret _ => 1
  | .ite p q k => p.size + q.size + k.size
  | .loop b k => b.size + k.size

/-! ### concrete semantics -/

abbrev Env := Nat → Kind

def Env.set (e : Env) (d : Nat) (x : Kind) : Env := fun v => if v = d then x else e v

/-- the kinds a right-hand side may evaluate to -/
inductive Rhs.yields : Rhs → Env → Kind → Prop where
  | const (k : Kind) (e : Env) : Rhs.yields (.const k) e k
  | same (v : Nat) (e : Env) : Rhs.yields (.same v) e (e v)
  | lift (vs : List Nat) (e : Env) : Rhs.yields (.lift vs) e (liftKind (vs.map e))
  | any (e : Env) (x : Kind) : Rhs.yields .any e x

inductive Outcome where
  | fell (e : Env)          -- the block ended without returning
  | returned (x : Kind)     -- `return` of a value of kind `x`

/-- every run of a program: any branch, any iteration count (there is no run through `halt`) -/
inductive Exec : Prog → Env → Outcome → Prop where
  | done (e : Env) : Exec .done e (.fell e)
  | assign {d : Nat} {r : Rhs} {k : Prog} {e : Env} {x : Kind} {o : Outcome} :
      r.yields e x → Exec k (e.set d x) o → Exec (.assign d r k) e o
  | ret {r : Rhs} {e : Env} {x : Kind} : r.yields e x → Exec (.ret r) e (.returned x)
  | iteL {p q k : Prog} {e e1 : Env} {o : Outcome} : Exec p e (.fell e1) → Exec k e1 o → Exec (.ite p q k) e o
  | iteLret {p q k : Prog} {e : Env} {x : Kind} : Exec p e (.returned x) → Exec (.ite p q k) e (.returned x)
  | iteR {p q k : Prog} {e e1 : Env} {o : Outcome} : Exec q e (.fell e1) → Exec k e1 o → Exec (.ite p q k) e o
  | iteRret {p q k : Prog} {e : Env} {x : Kind} : Exec q e (.returned x) → Exec (.ite p q k) e (.returned x)
  | loopExit {b k : Prog} {e : Env} {o : Outcome} : Exec k e o → Exec (.loop b k) e o
  | loopIter {b k : Prog} {e e1 : Env} {o : Outcome} :
      Exec b e (.fell e1) → Exec (.loop b k) e1 o → Exec (.loop b k) e o
  | loopRet {b k : Prog} {e : Env} {x : Kind} : Exec b e (.returned x) → Exec (.loop b k) e (.returned x)

/-! ### abstract checker -/

/-- a set of kinds -/
structure KSet where
  l : Bool
  e : Bool
  s : Bool
  deriving Repr, DecidableEq, Inhabited

def KSet.has (a : KSet) : Kind → Bool
  | .lazy => a.l
  | .eager => a.e
  | .scalar => a.s

def KSet.top : KSet := ⟨true, true, true⟩
def KSet.bot : KSet := ⟨false, false, false⟩
def KSet.only : Kind → KSet
  | .lazy => ⟨true, false, false⟩
  | .eager => ⟨false, true, false⟩
  | .scalar => ⟨false, false, true⟩
def KSet.join (a b : KSet) : KSet := ⟨a.l || b.l, a.e || b.e, a.s || b.s⟩
def KSet.sub (a b : KSet) : Bool := (!a.l || b.l) && (!a.e || b.e) && (!a.s || b.s)

/-- the kinds an elementwise / dispatched operation may produce when its operands may have the given kinds: lazy iff
    some operand may be lazy; eager iff every operand may be non-lazy and one of them may be eager; scalar iff every
    operand may be a scalar -/
def liftSet (ss : List KSet) : KSet :=
  ⟨ss.any (·.l), ss.all (fun s => s.e || s.s) && ss.any (·.e), ss.all (·.s)⟩

/-- per variable the kinds it may have -/
abbrev AEnv := Nat → KSet

def AEnv.set (a : AEnv) (d : Nat) (x : KSet) : AEnv := fun v => if v = d then x else a v
def joinE (a b : AEnv) : AEnv := fun v => (a v).join (b v)
/-- nothing is known about variables `≥ n` -/
def widen (n : Nat) (a : AEnv) : AEnv := fun v => if v < n then a v else .top
def subN (n : Nat) (a b : AEnv) : Bool := (List.range n).all fun v => (a v).sub (b v)

def Rhs.aeval (a : AEnv) : Rhs → KSet
  | .const k => .only k
  | .same v => a v
  | .lift vs => liftSet (vs.map a)
  | .any => .top

/-- the environment of a point no run reaches -/
def botEnv : AEnv := fun _ => .bot

/-- iterate the abstract body until the environment no longer grows (post-fixpoint on the variables `< n`), with
    fuel; returns the loop-head environment and the kinds the body may return from there -/
def bloop (n : Nat) (f : AEnv → Option (AEnv × KSet)) : Nat → AEnv → Option (AEnv × KSet)
  | 0, _ => none
  | fuel + 1, a =>
    match f a with
    | none => none
    | some (a', r) => if subN n a' a then some (a, r) else bloop n f fuel (joinE a a')

def loopFuel : Nat := 32

/-- `n` = number of variables of the program.  Result: (environment at the fall-through exit, kinds that may have been
    returned) -/
def bcheck (n : Nat) : Prog → AEnv → Option (AEnv × KSet)
  | .done, a => some (a, .bot)
  | .halt, _ => some (botEnv, .bot)                     -- nothing falls through a `raise` …
  | .assign d r k, a => bcheck n k (a.set d (r.aeval a))
  | .ret r, a => some (botEnv, r.aeval a)               -- … or a `return`
  | .ite p q k, a =>
    match bcheck n p a, bcheck n q a with
    | some (a1, r1), some (a2, r2) =>
      match bcheck n k (joinE a1 a2) with
      | some (a3, r3) => some (a3, (r1.join r2).join r3)
      | none => none
    | _, _ => none
  | .loop b k, a =>
    match bloop n (bcheck n b) loopFuel (widen n a) with
    | some (m, rb) =>
      match bcheck n k m with
      | some (a3, r3) => some (a3, rb.join r3)
      | none => none
    | none => none

/-- the environment a Dask branch function starts in: the parameters listed in `lazyParams` hold dask collections
    (the dispatch put us on this branch because they do), nothing is known about anything else -/
def initEnv (lazyParams : List Nat) : AEnv := fun v => if lazyParams.contains v then .only .lazy else .top

/-- every value the program may return is a dask collection -/
def lazyOk (n : Nat) (p : Prog) (a0 : AEnv) : Bool :=
  match bcheck n p a0 with
  | some (_, rs) => !rs.e && !rs.s
  | none => false

/-- diagnostics for the driver: the kinds that may be returned (`none`: the checker gave up) -/
def mayReturnKinds (n : Nat) (p : Prog) (a0 : AEnv) : Option KSet := (bcheck n p a0).map (·.2)

/-- a generated entry: one Dask branch function -/
structure DaskEntry where
  name : String             -- "module.function" (or "module.function#lambda" for a `dask_func=lambda …`)
  nvars : Nat
  lazyParams : List Nat     -- the variables of the parameters that hold the Dask-backed array(s) being dispatched on
  prog : Prog
  deriving Inhabited

def DaskEntry.ok (d : DaskEntry) : Bool := lazyOk d.nvars d.prog (initEnv d.lazyParams)

end XrsVerif.BK
