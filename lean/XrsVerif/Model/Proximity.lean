import XrsVerif.Core.KLang
import XrsVerif.Gen.Kernels
/-
  Executable model of `xrspatial/proximity.py` (`_process_proximity_line`, `_process_numpy`,
  the three output modes) -- DESIGN.md section 6 C06 / Appendix A.4.

  * Squared distances are exact naturals on a regular grid whose coordinate steps are `sx`, `sy`
    multiples of a common unit (Euclidean `dx²+dy²`, Manhattan `(dx+dy)²`); a third metric
    `other f` is an arbitrary distance table (great-circle enters here: only its order matters
    for the sweep, so every theorem that does not need planar geometry holds for it too).
  * The threshold is `max2x2 = ⌈2·max²⌉` (`none` = ∞): the two tests of the code,
    `dist² < 2·max²` and `max² ≥ dist²`, become `d < m` and `2·d ≤ m` on naturals
    (exact for integer, half-integer and `sqrt(k+½)` maxima, see design_notes/C06.md).
  * The model is cut into the same pieces as the comments of `_process_proximity_line`
    (`fromAbove`, `fromNeighbour`, `update`), one pixel is `pixel`, one line sweep is `sweepN`
    (k-th pixel *in sweep order*, position `posOf W fwd k`), a raster line in one pass is
    `rowStep` (two sweeps + the two `output_img` merges), the two passes are `tdN` / `buN`.
  * No Mathlib import, structural recursion over `Nat` only: the model is run by the driver and
    reduced by the kernel (`decide +kernel`) for the small-grid table.
-/
namespace XrsVerif.Prox

/-! ### raster values and the target test (proximity.py:314-322) -/

/-- a raster / `target_values` entry -/
inductive Val where
  | nan | pinf | ninf
  | fin (q : Rat)
  deriving DecidableEq, Inhabited

/-- IEEE `==` -/
def Val.ieq : Val → Val → Bool
  | .fin a, .fin b => a == b
  | .pinf, .pinf => true
  | .ninf, .ninf => true
  | _, _ => false

/-- `n_values == 0`: non-zero and finite; otherwise membership in `target_values` -/
def isTargetVal (values : List Val) (v : Val) : Bool :=
  if values.isEmpty then
    match v with
    | .fin q => q != 0
    | _ => false
  else values.any (fun t => Val.ieq v t)

/-! ### configuration and distances -/

inductive Metric where
  | euclid
  | manh
  /-- any other distance (squared), as a table over (target row, target col, row, col) -/
  | other (f : Nat → Nat → Nat → Nat → Nat)

/-- grid size, coordinate steps, metric, ⌈2·max²⌉ (`none` = unbounded) -/
structure Cfg where
  H : Nat
  W : Nat
  sx : Nat
  sy : Nat
  metric : Metric
  max2x2 : Option Nat

def adiff (a b : Nat) : Nat := (a - b) + (b - a)

/-- squared distance between the cell (r1,c1) (a target) and the cell (r2,c2) -/
def dist2 (c : Cfg) (r1 c1 r2 c2 : Nat) : Nat :=
  match c.metric with
  | .euclid => (adiff c1 c2 * c.sx) * (adiff c1 c2 * c.sx) + (adiff r1 r2 * c.sy) * (adiff r1 r2 * c.sy)
  | .manh => (adiff c1 c2 * c.sx + adiff r1 r2 * c.sy) * (adiff c1 c2 * c.sx + adiff r1 r2 * c.sy)
  | .other f => f r1 c1 r2 c2

/-- a remembered target: `none` = -1, `some (row, col)` = (pan_near_y, pan_near_x) -/
abbrev Tgt := Option (Nat × Nat)

/-- the arrays a line sweep works on -/
structure LineSt where
  pan : List Tgt           -- per column remembered target (pan_near_y, pan_near_x)
  lp  : List (Option Nat)  -- per column squared line_proximity (none = -1)
  nr  : List Tgt           -- nearest recorded in this sweep (nearest_ys, nearest_xs)

/-- d < bound (none = infinity) -/
def ltOpt (d : Nat) : Option Nat → Bool
  | none => true
  | some b => d < b

/-- "Are we near(er) to the closest target to the above (below) pixel?" -- forgets it when too far -/
def fromAbove (c : Cfg) (row p : Nat) (pan : List Tgt) (nds : Option Nat) : List Tgt × Option Nat :=
  match pan.getD p none with
  | some (tr, tc) =>
      let d := dist2 c tr tc row p
      if ltOpt d nds then (pan, some d) else (pan.set p none, nds)
  | none => (pan, nds)

/-- "... to the left (right) pixel?" and "... to the topright (bottom left) pixel?" -- adopt if strictly nearer -/
def fromNeighbour (c : Cfg) (row p q : Nat) (pan : List Tgt) (nds : Option Nat) : List Tgt × Option Nat :=
  match pan.getD q none with
  | some (tr, tc) =>
      let d := dist2 c tr tc row p
      if ltOpt d nds then (pan.set p (some (tr, tc)), some d) else (pan, nds)
  | none => (pan, nds)

/-- `max_distance * max_distance >= near_distance_square` -/
def withinMax (c : Cfg) (d : Nat) : Bool :=
  match c.max2x2 with
  | none => true
  | some m => 2 * d ≤ m

/-- `line_proximity[pixel] < 0 or near_distance_square < line_proximity[pixel]²` -/
def better (lp : List (Option Nat)) (p d : Nat) : Bool :=
  match lp.getD p none with
  | none => true
  | some old => d < old

/-- "Update our proximity value." -/
def update (c : Cfg) (s : LineSt) (p : Nat) (pan : List Tgt) (nds : Option Nat) : LineSt :=
  match pan.getD p none, nds with
  | some t, some d =>
      if withinMax c d && better s.lp p d
      then { pan := pan, lp := s.lp.set p (some d), nr := s.nr.set p (some t) }
      else { pan := pan, lp := s.lp, nr := s.nr }
  | _, _ => { pan := pan, lp := s.lp, nr := s.nr }

/-- a neighbour candidate that is skipped at the start / end of the line -/
def stepNb (c : Cfg) (row p : Nat) (skip : Bool) (q : Nat) (a : List Tgt × Option Nat) : List Tgt × Option Nat :=
  if skip then a else fromNeighbour c row p q a.1 a.2

/-- position of the k-th pixel of a sweep: `range(0, W, 1)` or `range(W-1, -1, -1)` -/
def posOf (W : Nat) (fwd : Bool) (k : Nat) : Nat := if fwd then k else W - 1 - k

/-- the k-th pixel (in sweep order) of `_process_proximity_line`:
    `last = pixel - step` is position k-1 (skipped when `pixel == start`),
    `tr = pixel + step` is position k+1 (skipped when `tr == end`) -/
def pixel (c : Cfg) (tg : Nat → Nat → Bool) (row : Nat) (fwd : Bool) (s : LineSt) (k : Nat) : LineSt :=
  let p := posOf c.W fwd k
  if tg row p then
    { pan := s.pan.set p (some (row, p)), lp := s.lp.set p (some 0), nr := s.nr.set p (some (row, p)) }
  else
    let a := fromAbove c row p s.pan c.max2x2
    let b := stepNb c row p (k == 0) (posOf c.W fwd (k - 1)) a
    let d := stepNb c row p (k + 1 == c.W) (posOf c.W fwd (k + 1)) b
    update c s p d.1 d.2

/-- the first `n` pixels of a sweep -/
def sweepN (c : Cfg) (tg : Nat → Nat → Bool) (row : Nat) (fwd : Bool) (s0 : LineSt) : Nat → LineSt
  | 0 => s0
  | n + 1 => pixel c tg row fwd (sweepN c tg row fwd s0 n) n

/-- one call of `_process_proximity_line` (the caller reset `nearest_xs/ys` to -1) -/
def sweep (c : Cfg) (tg : Nat → Nat → Bool) (row : Nat) (fwd : Bool) (pan : List Tgt) (lp : List (Option Nat)) : LineSt :=
  sweepN c tg row fwd { pan := pan, lp := lp, nr := List.replicate c.W none } c.W

/-- `output_img[line][i]` is rewritten only where `nearest_xs[i] != -1` -/
def mergeNr (old nr : List Tgt) : List Tgt :=
  List.zipWith (fun o n => match n with | some t => some t | none => o) old nr

/-- what is kept of one raster line: squared proximity and the target written to `output_img` -/
structure RowOut where
  lp : List (Option Nat)
  al : List Tgt

def blankRow (c : Cfg) : RowOut := { lp := List.replicate c.W none, al := List.replicate c.W none }

/-- one raster line in one pass: two sweeps (first in direction `fwdFirst`), each followed by the
    `output_img` merge; `o` = the line as the previous pass left it -/
def rowStep (c : Cfg) (tg : Nat → Nat → Bool) (fwdFirst : Bool) (row : Nat) (pan : List Tgt) (o : RowOut) :
    List Tgt × RowOut :=
  let s1 := sweep c tg row fwdFirst pan o.lp
  let a1 := mergeNr o.al s1.nr
  let s2 := sweep c tg row (!fwdFirst) s1.pan s1.lp
  (s2.pan, { lp := s2.lp, al := mergeNr a1 s2.nr })

/-- "Loop from top to bottom of the image": state after the first `n` lines -/
def tdN (c : Cfg) (tg : Nat → Nat → Bool) : Nat → List Tgt × List RowOut
  | 0 => (List.replicate c.W none, [])
  | n + 1 =>
      let st := tdN c tg n
      let r := rowStep c tg true n st.1 (blankRow c)
      (r.1, st.2 ++ [r.2])

/-- "Loop from bottom to top of the image": state after the last `n` lines -/
def buN (c : Cfg) (tg : Nat → Nat → Bool) (td : List RowOut) : Nat → List Tgt × List RowOut
  | 0 => (List.replicate c.W none, [])
  | n + 1 =>
      let st := buN c tg td n
      let row := c.H - 1 - n
      let r := rowStep c tg false row st.1 (td.getD row (blankRow c))
      (r.1, r.2 :: st.2)

/-- `_process_numpy` -/
def run (c : Cfg) (tg : Nat → Nat → Bool) : List RowOut :=
  (buN c tg (tdN c tg c.H).2 c.H).2

/-! ### the three outputs -/

def rowAt (img : List RowOut) (r : Nat) : RowOut := img.getD r { lp := [], al := [] }

/-- the target `output_img` refers to at (r, p) (`none` = the cell stays NaN) -/
def allocAt (img : List RowOut) (r p : Nat) : Tgt := (rowAt img r).al.getD p none

/-- PROXIMITY mode, squared (`none` = NaN) -/
def proxAt (img : List RowOut) (r p : Nat) : Option Nat := (rowAt img r).lp.getD p none

/-- ALLOCATION mode: the raster value at the recorded target -/
def allocationOut {α : Type} (raster : Nat → Nat → α) (img : List RowOut) (r p : Nat) : Option α :=
  (allocAt img r p).map (fun t => raster t.1 t.2)

def dirEnv {F : Type} [Fl F] (x1 x2 y1 y2 : F) : String → F :=
  fun n => if n = "x1" then x1 else if n = "x2" then x2 else if n = "y1" then y1 else if n = "y2" then y2 else Fl.nan

/-- `_calc_direction(x1, x2, y1, y2)` as generated from the source -/
def bearing {F : Type} [Fl F] (x1 x2 y1 y2 : F) : F :=
  Gen.calc_direction.cell (dirEnv x1 x2 y1 y2) (fun _ _ _ => Fl.nan) (fun _ => [])

/-- DIRECTION mode: the bearing from the cell to the recorded target (`xs`, `ys` = coordinates) -/
def directionOut {F : Type} [Fl F] (xs ys : Nat → F) (img : List RowOut) (r p : Nat) : F :=
  match allocAt img r p with
  | none => Fl.nan
  | some t => bearing (xs p) (xs t.2) (ys r) (ys t.1)

/-! ### the exact nearest target (specification side) -/

def cells (c : Cfg) : List (Nat × Nat) :=
  (List.range c.H).flatMap (fun r => (List.range c.W).map (fun p => (r, p)))

def minOpt : Option Nat → Nat → Option Nat
  | none, d => some d
  | some b, d => some (min b d)

/-- exact nearest squared distance over all target cells of the grid (`none` = no target) -/
def exact (c : Cfg) (tg : Nat → Nat → Bool) (r p : Nat) : Option Nat :=
  (cells c).foldl (fun acc t => if tg t.1 t.2 then minOpt acc (dist2 c t.1 t.2 r p) else acc) none

/-- the exact answer cut at `max_distance` -/
def exactCut (c : Cfg) (tg : Nat → Nat → Bool) (r p : Nat) : Option Nat :=
  match exact c tg r p with
  | some d => if withinMax c d then some d else none
  | none => none

def layoutOf (c : Cfg) (mask : Nat) : Nat → Nat → Bool :=
  fun r p => decide (r < c.H) && decide (p < c.W) && ((mask >>> (r * c.W + p)) % 2 == 1)

/-- model = exact on one layout -/
def checkLayout (c : Cfg) (tg : Nat → Nat → Bool) : Bool :=
  let img := run c tg
  (List.range c.H).all fun r => (List.range c.W).all fun p => proxAt img r p == exactCut c tg r p

/-- model = exact on every one of the 2^(H·W) target layouts -/
def checkAll (c : Cfg) : Bool :=
  (List.range (2 ^ (c.H * c.W))).all (fun m => checkLayout c (layoutOf c m))

end XrsVerif.Prox
