import XrsVerif.Model.Regions
/-
  Model of `xrspatial.experimental.polygonize` (property C15).

  Stage 1  `_calculate_regions`: one pass over the flattened raster (`ij = i + j*nx`, rows grow
           northwards) looking at the W and S (and SW, SE for connectivity 8) pixels, provisional
           region ids, a merge `Lookup` (`region_lookup`, with its allocated size) maintained by
           `_merge_regions`, and the final compaction to first-pixel ranks.  Masked pixels get 0.
  Stage 2  `_follow`: boundary following.  The code's state `(ij, forward, left)` on the flattened
           raster is modelled in coordinates `(x, y, d)`, `d ∈ {E,N,W,S}`: `forward = 1, nx, -1, -nx`
           and `left` is `forward` turned by +90 degrees.  The row / domain tests of the code
           (`_diff_row`, `_outside_domain`) say exactly "that pixel is outside the raster"; here the
           region predicate `R x y` is simply false outside.  Turn rules: Right if the pixel
           ahead-right is in the region, else Straight if the pixel ahead is, else Left.
           A vertex is recorded whenever the direction differs from the previous iteration's.
  Stage 3  `_scan`: exterior start = first pixel of the next region (S edge, facing E); hole start =
           a not yet visited N edge of pixel `ij-nx` whose N neighbour `ij` is in another region
           (facing W); holes are appended to the polygon of the region that was followed.
  `_polygonize_numpy`: the `nx == 1` workaround (a masked-out second column), `_transform_points`.

  No Mathlib import: linked into the driver.
-/
namespace XrsVerif.Polygonize
open XrsVerif.Regions (setL)

/-! ### stage 1: regions -/

/-- `region_lookup`: contents and allocated length (reads at or beyond `size` do not occur) -/
structure Lookup where
  get : Nat → Nat
  size : Nat

def Lookup.set (lk : Lookup) (i v : Nat) : Lookup :=
  ⟨fun j => if j = i then v else lk.get j, lk.size⟩

/-- the numba-compatible resize at the top of `_merge_regions` (new cells are zero) -/
def Lookup.grow (lk : Lookup) (upper : Nat) : Lookup :=
  if upper ≥ lk.size then ⟨lk.get, max (upper + 1) (2 * lk.size)⟩ else lk

def minMax (a b : Nat) : Nat × Nat := if a < b then (a, b) else (b, a)

/-- the `while True` loop of `_merge_regions`; `upper` strictly decreases, so `fuel = upper + 1`
    iterations suffice -/
def mergeLoop : Nat → Lookup → Nat → Nat → Lookup
  | 0, lk, _, _ => lk
  | fuel + 1, lk, lower, upper =>
    let prev := lk.get upper
    if prev ≠ 0 ∧ prev ≠ lower then
      let lo := (minMax lower prev).1
      let pv := (minMax lower prev).2
      mergeLoop fuel (lk.set upper lo) lo pv
    else lk.set upper lower

def mergeRegions (lk : Lookup) (lower upper : Nat) : Lookup :=
  mergeLoop (upper + 1) (lk.grow upper) lower upper

/-- state of the labelling pass: provisional ids, lookup, last id handed out -/
structure CR where
  raw : Nat → Nat
  lk : Lookup
  region : Nat

section labelling
variable {V : Type}

/-- the W rule, and for connectivity 8 the SW rule (only if W did not match):
    (does a western neighbour match?, its provisional id).  `close ref val`; `mask ij = true` = used. -/
def probeW (nx : Nat) (conn8 : Bool) (close : V → V → Bool) (values : Nat → V) (mask : Nat → Bool)
    (raw : Nat → Nat) (ij : Nat) : Bool × Nat :=
  let m0 := decide (0 < ij % nx) && mask (ij - 1) && close (values ij) (values (ij - 1))
  let use := conn8 && decide (nx ≤ ij) && !m0 && decide (0 < ij % nx) && mask (ij - nx - 1)
              && close (values ij) (values (ij - nx - 1))
  (m0 || use, if use then raw (ij - nx - 1) else raw (ij - 1))

/-- the S rule, and for connectivity 8 the SE rule (only if S did not match) -/
def probeS (nx : Nat) (conn8 : Bool) (close : V → V → Bool) (values : Nat → V) (mask : Nat → Bool)
    (raw : Nat → Nat) (ij : Nat) : Bool × Nat :=
  let m0 := decide (nx ≤ ij) && mask (ij - nx) && close (values ij) (values (ij - nx))
  let use := conn8 && decide (nx ≤ ij) && !m0 && decide (ij % nx + 1 < nx) && mask (ij - nx + 1)
              && close (values ij) (values (ij - nx + 1))
  (m0 || use, if use then raw (ij - nx + 1) else raw (ij - nx))

/-- one pixel of the labelling pass -/
def calcStep (nx : Nat) (conn8 : Bool) (close : V → V → Bool) (values : Nat → V) (mask : Nat → Bool)
    (st : CR) (ij : Nat) : CR :=
  if !mask ij then ⟨setL st.raw ij 0, st.lk, st.region⟩
  else
    let w := probeW nx conn8 close values mask st.raw ij
    let s := probeS nx conn8 close values mask st.raw ij
    if w.1 && s.1 then
      let lo := (minMax w.2 s.2).1
      let up := (minMax w.2 s.2).2
      ⟨setL st.raw ij lo, if lo ≠ up then mergeRegions st.lk lo up else st.lk, st.region⟩
    else if w.1 then ⟨setL st.raw ij w.2, st.lk, st.region⟩
    else if s.1 then ⟨setL st.raw ij s.2, st.lk, st.region⟩
    else ⟨setL st.raw ij (st.region + 1), st.lk, st.region + 1⟩

def calcPass (nx ny : Nat) (conn8 : Bool) (close : V → V → Bool) (values : Nat → V) (mask : Nat → Bool) : CR :=
  (List.range (nx * ny)).foldl (calcStep nx conn8 close values mask)
    ⟨fun _ => 0, ⟨fun _ => 0, max 64 (max nx ny)⟩, 0⟩

/-- the compaction loop: roots get consecutive new ids in increasing order of old id -/
def compactStep (lk : Lookup) (st : (Nat → Nat) × Nat) (i : Nat) : (Nat → Nat) × Nat :=
  let target := if i < lk.size then lk.get i else 0
  if target = 0 then (setL st.1 i st.2, st.2 + 1) else (setL st.1 i (st.1 target), st.2)

def compact (lk : Lookup) (region : Nat) : (Nat → Nat) × Nat :=
  (List.range (region + 1)).foldl (compactStep lk) (fun _ => 0, 0)

/-- the final region id of pixel `ij` -/
def regionId (nx ny : Nat) (conn8 : Bool) (close : V → V → Bool) (values : Nat → V)
    (mask : Nat → Bool) (ij : Nat) : Nat :=
  let st := calcPass nx ny conn8 close values mask
  (compact st.lk st.region).1 (st.raw ij)

/-- `_calculate_regions`: the final region id of every pixel, as a list over `ij`
    (`= (List.range (nx*ny)).map regionId`, computed once) -/
def calculateRegions (nx ny : Nat) (conn8 : Bool) (close : V → V → Bool) (values : Nat → V)
    (mask : Nat → Bool) : List Nat :=
  let st := calcPass nx ny conn8 close values mask
  let nl := compact st.lk st.region
  (List.range (nx * ny)).map fun ij => nl.1 (st.raw ij)

end labelling

/-! ### stage 2: boundary following -/

inductive Dir | E | N | W | S
  deriving DecidableEq, Repr

def Dir.dx : Dir → Int
  | .E => 1 | .W => -1 | _ => 0
def Dir.dy : Dir → Int
  | .N => 1 | .S => -1 | _ => 0
/-- +90 degrees -/
def Dir.left : Dir → Dir
  | .E => .N | .N => .W | .W => .S | .S => .E
/-- -90 degrees -/
def Dir.right : Dir → Dir
  | .E => .S | .S => .W | .W => .N | .N => .E

/-- a follower state: pixel `(x, y)` (always a pixel of the region) and heading; it stands for the
    directed edge of that pixel which has the pixel on its left -/
structure FSt where
  x : Int
  y : Int
  d : Dir
  deriving DecidableEq, Repr

/-- the pixel ahead (`ijnext`) -/
def FSt.ahead (s : FSt) : Int × Int := (s.x + s.d.dx, s.y + s.d.dy)
/-- the pixel ahead-right (`ijnext_right = ijnext - left`) -/
def FSt.aheadRight (s : FSt) : Int × Int := (s.x + s.d.dx - s.d.left.dx, s.y + s.d.dy - s.d.left.dy)
/-- the pixel on the right of the edge (`ij - left`) -/
def FSt.rightCell (s : FSt) : Int × Int := (s.x - s.d.left.dx, s.y - s.d.left.dy)

/-- one iteration of the `while True` loop of `_follow` (turn decision + turn) -/
def step (R : Int → Int → Bool) (s : FSt) : FSt :=
  if R s.aheadRight.1 s.aheadRight.2 then ⟨s.aheadRight.1, s.aheadRight.2, s.d.right⟩
  else if R s.ahead.1 s.ahead.2 then ⟨s.ahead.1, s.ahead.2, s.d⟩
  else ⟨s.x, s.y, s.d.left⟩

/-- the vertex recorded for a state: the start point of its edge -/
def FSt.corner (s : FSt) : Int × Int :=
  match s.d with
  | .E => (s.x, s.y)
  | .W => (s.x + 1, s.y + 1)
  | .N => (s.x + 1, s.y)
  | .S => (s.x, s.y + 1)

/-- result of following one boundary: vertices (without the closing point), pixels to flag with
    `visited |= 1` and with `visited |= 2` -/
structure Trace where
  pts : List (Int × Int)
  v1 : List Nat
  v2 : List Nat

/-- the loop of `_follow` (second pass), `fuel` iterations at most; `none` if it does not return to
    the start within the fuel.  `cur` is the state at the top of the iteration, `prev` the previous
    iteration's heading (`prev_forward`). -/
def followLoop (R : Int → Int → Bool) (nx ny : Nat) (hole : Bool) (start : FSt) :
    Nat → FSt → Option Dir → Trace → Option Trace
  | 0, _, _, _ => none
  | fuel + 1, cur, prev, tr =>
    let ij := (cur.x + cur.y * nx).toNat
    let v1 := if cur.d = .E ∧ hole = false then ij :: tr.v1 else tr.v1
    let v2 := if ¬(cur.d = .E ∧ hole = false) ∧ cur.d = .W ∧ ij + nx < nx * ny then (ij + nx) :: tr.v2 else tr.v2
    let pts := if prev ≠ some cur.d then cur.corner :: tr.pts else tr.pts
    let nxt := step R cur
    if nxt = start then some ⟨pts, v1, v2⟩
    else followLoop R nx ny hole start fuel nxt (some cur.d) ⟨pts, v1, v2⟩

/-- region predicate of a follow: inside the raster and same region id -/
def inRegion (nx ny : Nat) (regs : Nat → Nat) (region : Nat) (x y : Int) : Bool :=
  decide (0 ≤ x) && decide (x < nx) && decide (0 ≤ y) && decide (y < ny) && (regs (x + y * nx).toNat == region)

/-- `_follow(regions, visited, nx, ny, ij, hole)`: ring (closed: last = first), visited flags -/
def follow (nx ny : Nat) (regs : Nat → Nat) (ij : Nat) (hole : Bool) : Option Trace :=
  let region := regs ij
  let start : FSt := ⟨(ij % nx : Nat), (ij / nx : Nat), if hole then .W else .E⟩
  match followLoop (inRegion nx ny regs region) nx ny hole start (4 * nx * ny + 4) start none ⟨[], [], []⟩ with
  | none => none
  | some tr =>
    let pts := tr.pts.reverse
    some ⟨pts ++ pts.take 1, tr.v1, tr.v2⟩

/-! ### stage 3: scan -/

abbrev Ring := List (Int × Int)

structure Scan (V : Type) where
  v1 : List Nat
  v2 : List Nat
  regionDone : Nat
  column : List V            -- reversed
  polys : List (List Ring)   -- in region order; rings of a polygon in order of discovery
  ok : Bool                  -- false if a follow ran out of fuel / a hole had no polygon

def appendAt {β : Type} (l : List (List β)) (k : Nat) (r : β) : List (List β) :=
  l.modify k (fun rs => rs ++ [r])

def scanStep {V : Type} (nx ny : Nat) (regs : Nat → Nat) (values : Nat → V) (st : Scan V) (ij : Nat) : Scan V :=
  let st1 :=
    if !(st.v1.contains ij) && regs ij == st.regionDone + 1 then
      match follow nx ny regs ij false with
      | none => { st with ok := false }
      | some tr => { st with v1 := tr.v1 ++ st.v1, v2 := tr.v2 ++ st.v2, regionDone := regs ij,
                             column := values ij :: st.column, polys := st.polys ++ [[tr.pts]] }
    else st
  if decide (nx ≤ ij) && !(st1.v2.contains ij) && regs ij != regs (ij - nx) && regs (ij - nx) != 0 then
    match follow nx ny regs (ij - nx) true with
    | none => { st1 with ok := false }
    | some tr =>
      let region := regs (ij - nx)
      { st1 with v1 := tr.v1 ++ st1.v1, v2 := tr.v2 ++ st1.v2,
                 polys := appendAt st1.polys (region - 1) tr.pts,
                 ok := st1.ok && decide (region - 1 < st1.polys.length) }
  else st1

/-- `_scan` without the transform: (column, polygons) -/
def scan {V : Type} (nx ny : Nat) (conn8 : Bool) (close : V → V → Bool) (values : Nat → V)
    (mask : Nat → Bool) : Scan V :=
  let regsL := (calculateRegions nx ny conn8 close values mask).toArray
  let regs : Nat → Nat := fun ij => regsL.getD ij 0
  (List.range (nx * ny)).foldl (scanStep nx ny regs values) ⟨[], [], 0, [], [], true⟩

/-! ### `_polygonize_numpy`, `_transform_points` -/

/-- `(t0*x + t1*y + t2, t3*x + t4*y + t5)` -/
def affine (t : List Rat) (p : Int × Int) : Rat × Rat :=
  let g := fun k => t.getD k 0
  (g 0 * p.1 + g 1 * p.2 + g 2, g 3 * p.1 + g 4 * p.2 + g 5)

def toRat (p : Int × Int) : Rat × Rat := ((p.1 : Rat), (p.2 : Rat))

structure Output (V : Type) where
  column : List V
  polys : List (List (List (Rat × Rat)))
  ok : Bool

/-- `_polygonize_numpy(values, mask, connectivity_8, transform)` for an `ny × nx` raster given
    row-major (`values (i + j*nx)`).  For `nx = 1` a second, masked-out column is appended. -/
def polygonizeNumpy {V : Type} (nx ny : Nat) (conn8 : Bool) (close : V → V → Bool) (values : Nat → V)
    (mask : Nat → Bool) (transform : Option (List Rat)) : Output V :=
  let sc :=
    if nx = 1 then
      scan 2 ny conn8 close (fun ij => values (ij / 2)) (fun ij => decide (ij % 2 = 0) && mask (ij / 2))
    else scan nx ny conn8 close values mask
  let f : Int × Int → Rat × Rat := match transform with
    | none => toRat
    | some t => affine t
  ⟨sc.column.reverse, sc.polys.map (fun rings => rings.map (fun r => r.map f)), sc.ok⟩

end XrsVerif.Polygonize
