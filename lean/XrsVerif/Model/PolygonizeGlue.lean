import XrsVerif.Model.Polygonize
/-!
  The Python glue of `polygonize()` around the numba pipeline (C15), as far as the property depends on it:
  which dtype the raster values have when they reach `_polygonize_numpy`, whether a supplied transform reaches
  it, and the single-column workaround.  The *facts* (`WrapperFacts`, `NumpyFacts`) are regenerated from the source
  on every run (harness/facts_polygonize.py -> Gen/PolygonizeFacts.lean); `wrapperModel` is the wrapper as the
  facts describe it, over an abstract cast and abstract drop conditions.
-/
namespace XrsVerif.Polygonize

/-- the raster dtypes the wrapper accepts (numba compiles the pipeline for each of them) -/
inductive DType where
  | i8 | i16 | i32 | i64 | u8 | u16 | u32 | u64 | f32 | f64 | bool
  deriving DecidableEq, Repr

def DType.all : List DType := [.i8, .i16, .i32, .i64, .u8, .u16, .u32, .u64, .f32, .f64, .bool]

def DType.isInt : DType → Bool
  | .i8 | .i16 | .i32 | .i64 | .u8 | .u16 | .u32 | .u64 => true
  | _ => false

def DType.isFloat : DType → Bool
  | .f32 | .f64 => true
  | _ => false

def DType.signed : DType → Bool
  | .i8 | .i16 | .i32 | .i64 => true
  | _ => false

/-- storage bits of an integer dtype (0 otherwise) -/
def DType.bits : DType → Nat
  | .i8 | .u8 => 8 | .i16 | .u16 => 16 | .i32 | .u32 => 32 | .i64 | .u64 => 64
  | _ => 0

/-- significand bits of a float dtype (0 otherwise) -/
def DType.mant : DType → Nat
  | .f32 => 24 | .f64 => 53
  | _ => 0

/-- least / greatest value of an integer dtype -/
def DType.lo (d : DType) : Int := if d.signed then -(2 ^ (d.bits - 1)) else 0
def DType.hi (d : DType) : Int := if d.signed then 2 ^ (d.bits - 1) - 1 else 2 ^ d.bits - 1

def DType.inRange (d : DType) (v : Int) : Bool := decide (d.lo ≤ v) && decide (v ≤ d.hi)

/-- `ndarray.astype` to an integer dtype on an integer value: the C conversion, i.e. the residue modulo `2^bits`
    in the range of the target (two's complement) -/
def wrapTo (d : DType) (v : Int) : Int :=
  let m : Int := 2 ^ d.bits
  let r := v % m
  if d.signed = true ∧ m ≤ 2 * r then r - m else r

/-- does a cast from `s` to `t` keep every value of `s` (numerically)?
    integer -> integer: the range of `s` lies inside the range of `t` (`wrapTo_keeps`, `wrapTo_loses` in
    Proofs/PolygonizeGlue.lean); integer -> float: every magnitude of `s` fits the significand; float -> float: the
    significand does not shrink; bool -> anything numeric: 0 / 1; float -> integer and anything -> bool: no. -/
def keepsValues (s t : DType) : Bool :=
  if s = t then true
  else if s = .bool then t.isInt || t.isFloat
  else if s.isInt && t.isInt then decide (t.lo ≤ s.lo) && decide (s.hi ≤ t.hi)
  else if s.isInt && t.isFloat then decide (s.bits - (if s.signed then 1 else 0) ≤ t.mant)
  else if s.isFloat && t.isFloat then decide (s.mant ≤ t.mant)
  else false

/-- a cast the pipeline cannot notice: values kept, and the same `_is_close` specialisation (exact equality for
    two integers, the tolerance test otherwise; on a bool raster both coincide) -/
def glueSafe (s t : DType) : Bool :=
  keepsValues s t && (s == .bool || s.isInt == t.isInt)

inductive Cast where
  | none                 -- the parameter reaches the kernel with its own dtype
  | to (d : DType)       -- cast to a fixed dtype
  | unknown
  deriving DecidableEq, Repr

/-- facts of `polygonize()` (see harness/facts_polygonize.py) -/
structure WrapperFacts where
  ok : Bool
  kernelArgs : List String
  valuesAtKernel : List (DType × DType)
  valueOps : List String
  maskCast : Cast
  maskOps : List String
  transformCast : Cast
  transformOps : List String
  transformDrops : List String
  connectivity8 : String
  problems : List String

structure SingleColumn where
  ok : Bool
  newNx : Nat
  valuesPadRight : Bool
  maskPadRight : Bool
  maskPadValue : Bool
  noMaskKeptColumn : Nat
  noMaskDefault : Bool
  deriving DecidableEq, Repr

/-- facts of `_polygonize_numpy` -/
structure NumpyFacts where
  ok : Bool
  scanArgs : List String
  returnsScanResult : Bool
  flatten : List String
  singleColumn : Option SingleColumn
  problems : List String

/-- the workaround the model `polygonizeNumpy` implements for `nx = 1`: a second column on the right, masked out
    (`mask (ij / 2)` only in column 0), values of the new column irrelevant -/
def modelSingleColumn : SingleColumn :=
  { ok := true, newNx := 2, valuesPadRight := true, maskPadRight := true, maskPadValue := false,
    noMaskKeptColumn := 0, noMaskDefault := false }

/-- what the model assumes of `_polygonize_numpy`: row-major flattening, the workaround above, and no way out of the
    function other than the result of `_scan` on (values, mask, connectivity_8, transform, nx, ny) -/
def NumpyFacts.asModelled (N : NumpyFacts) : Bool :=
  N.ok && N.returnsScanResult && N.scanArgs == ["values", "mask", "connectivity_8", "transform", "nx", "ny"] &&
    N.flatten == ["values.ravel()", "mask.ravel()"] && N.singleColumn == some modelSingleColumn

/-- what the model assumes of `polygonize()` besides the values: mask and transform reach the kernel with their
    own dtype (the transform through value-keeping conversions only; a mask may also be cast to bool -- the kernel
    only tests its truth value), no supplied transform is ever dropped, the
    third argument is `connectivity == 8` -/
def WrapperFacts.passesThrough (F : WrapperFacts) : Bool :=
  F.ok && (F.maskCast == .none || F.maskCast == .to .bool) && F.transformCast == .none && F.transformDrops.isEmpty &&
    F.connectivity8 == "connectivity == 8" && F.problems.isEmpty

/-- **the wrapper as the facts describe it**, for a raster of dtype `src`:
    the values are cast to the dtype the facts give for `src` (`cast s t` -- abstract), compared by the `_is_close`
    specialisation of that dtype (`close t` -- abstract), and a supplied transform is replaced by `None` when one of
    the recorded drop conditions holds (`dropIf condition transform` -- abstract). -/
def wrapperModel {V : Type} (F : WrapperFacts) (cast : DType → DType → V → V) (close : DType → V → V → Bool)
    (dropIf : String → List Rat → Bool) (src : DType) (nx ny : Nat) (conn8 : Bool) (values : Nat → V)
    (mask : Nat → Bool) (transform : Option (List Rat)) : Output V :=
  match F.valuesAtKernel.lookup src with
  | none => ⟨[], [], false⟩
  | some dt =>
    let transform' := transform.bind fun t => if F.transformDrops.any (fun c => dropIf c t) then none else some t
    polygonizeNumpy nx ny conn8 (close dt) (fun ij => cast src dt (values ij)) mask transform'

end XrsVerif.Polygonize
