/-
  Model/Zonal.lean -- hand model of the NumPy path of `xrspatial.zonal.stats` and of the
  sort-and-stride bookkeeping shared by stats / crosstab / the dask block functions
  (zonal.py `_strides`, `_sort_and_stride`, `_calc_stats`, `_stats_numpy`).

  The model is *position faithful*: the zone keys and the payload travel in two separate
  lists, strides are computed on the (stripped) key list and slices are cut out of the payload
  list by position -- exactly as the code does.  Whether the non-finite-zone cells are removed
  from `sorted_indices` before the payload is gathered is the flag `strip` (read from the source
  by harness/facts_zonal.py, `Gen.Zonal.stripIndices`): `strip = false` is the code that only
  strips `sorted_zones` (defect D1), `strip = true` the repaired one.

  External calls: `np.argsort` is the parameter `perm` (a list of flat cell indices; contract:
  a permutation of the cells that sorts their zone keys in numpy's order, NaN last -- argsort is
  not stable, so theorems quantify over every such permutation); `np.unique`, `np.sort` are the
  concrete `sortDedup`, `isort` below (their contracts are proved in Proofs/Zonal.lean).

  Rasters are functions of the flat (row-major) cell index.  No Mathlib import: this file is
  linked into the driver executable.
-/
namespace XrsVerif.Zonal

/-- an array element: NaN, -inf, a finite number, +inf -/
inductive X (κ : Type) where
  | nan | ninf | fin (k : κ) | pinf
  deriving DecidableEq, Repr, Inhabited

variable {κ ν ρ : Type}

/-- `np.isfinite` -/
def X.isFin : X κ → Bool
  | .fin _ => true
  | _ => false

def X.toFin? : X κ → Option κ
  | .fin k => some k
  | _ => none

/-- position class in numpy's sort order: -inf, finite, +inf, NaN (NaN is sorted to the end) -/
def X.rank : X κ → Nat
  | .ninf => 0
  | .fin _ => 1
  | .pinf => 2
  | .nan => 3

/-- `a` may stand before `b` in an array sorted by numpy -/
def X.sortLe [LT κ] [DecidableLT κ] : X κ → X κ → Bool
  | .fin a, .fin b => !(decide (b < a))
  | a, b => decide (a.rank ≤ b.rank)

section order
variable [LT κ] [DecidableLT κ] [DecidableEq κ]

def insertU (x : κ) : List κ → List κ
  | [] => [x]
  | y :: ys => if x < y then x :: y :: ys else if x = y then y :: ys else y :: insertU x ys

/-- `np.unique` of a list of finite numbers: ascending, duplicates removed -/
def sortDedup (l : List κ) : List κ := l.foldr insertU []

def insertS (x : κ) : List κ → List κ
  | [] => [x]
  | y :: ys => if y < x then y :: insertS x ys else x :: y :: ys

/-- `np.sort` of a list of finite numbers -/
def isort (l : List κ) : List κ := l.foldr insertS []

end order

/-- `_strides(flatten_zones, unique_zones)`: for every unique id the pointer `count` advances
    while the element under it equals the id; the pointer after each id is recorded.
    (`fz` is the part of the array not yet passed, `c` the pointer.) -/
def strides [DecidableEq κ] : List κ → Nat → List κ → List Nat
  | _, _, [] => []
  | fz, c, u :: us =>
      let k := (fz.takeWhile (· == u)).length
      (c + k) :: strides (fz.drop k) (c + k) us

/-- the loop skeleton `start = 0; for i: end = breaks[i]; a[start:end]; start = end` -/
def zoneSlices {α : Type} (a : List α) : Nat → List Nat → List (List α)
  | _, [] => []
  | start, e :: bs => ((a.drop start).take (e - start)) :: zoneSlices a e bs

/-- result of `_sort_and_stride` -/
structure SAS (ν : Type) where
  idx : List Nat          -- sorted_indices
  vbz : List ν            -- values_by_zones
  breaks : List Nat       -- zone_breaks

/-- `_sort_and_stride(zones, values, unique_zones)`; `perm` is what `np.argsort` returned. -/
def sortAndStride [DecidableEq κ] (strip : Bool) (zones : Nat → X κ) (values : Nat → ν)
    (uniq : List κ) (perm : List Nat) : SAS ν :=
  let idx := if strip then perm.filter (fun i => (zones i).isFin) else perm
  let sortedZones := idx.map zones
  { idx := idx
    vbz := idx.map values
    breaks := strides (sortedZones.filterMap X.toFin?) 0 uniq }

/-- `np.unique(zones[np.isfinite(zones)])` over the cells `cells` -/
def uniqueZones [LT κ] [DecidableLT κ] [DecidableEq κ] (zones : Nat → X κ) (cells : List Nat) : List κ :=
  sortDedup (cells.filterMap (fun i => (zones i).toFin?))

/-- one zone of `_calc_stats`: filter, NaN when nothing is left, else the reducer -/
def entry (valid : ν → Bool) (nanρ : ρ) (func : List ν → ρ) (slice : List ν) : ρ :=
  let zv := slice.filter valid
  if zv.isEmpty then nanρ else func zv

/-- `_calc_stats`: one result per unique zone, NaN for zones that are not selected -/
def calcStats (valid : ν → Bool) (nanρ : ρ) (func : List ν → ρ) (sas : SAS ν)
    (uniq : List κ) (sel : κ → Bool) : List ρ :=
  (uniq.zip (zoneSlices sas.vbz 0 sas.breaks)).map
    (fun p => if sel p.1 then entry valid nanρ func p.2 else nanρ)

/-- `_stats_numpy`: `zone_ids` handling (`np.unique`, then drop ids that are not in the raster) -/
def selectZoneIds [LT κ] [DecidableLT κ] [DecidableEq κ] (uniq : List κ) : Option (List κ) → List κ
  | none => uniq
  | some ids => (sortDedup ids).filter (fun z => uniq.contains z)

/-- a DataFrame: the `zone` column and one column per statistic -/
structure Table (κ ρ : Type) where
  zone : List κ
  cols : List (List ρ)
  deriving Repr, DecidableEq

/-- `_stats_numpy(..., return_type='pandas.DataFrame')` on the cells `cells` (= `range n` for a whole raster) -/
def statsNumpy [LT κ] [DecidableLT κ] [DecidableEq κ] (strip : Bool) (zones : Nat → X κ)
    (values : Nat → ν) (cells : List Nat) (valid : ν → Bool) (nanρ : ρ) (funcs : List (List ν → ρ))
    (zoneIds : Option (List κ)) (perm : List Nat) : Table κ ρ :=
  let uniq := uniqueZones zones cells
  let ids := selectZoneIds uniq zoneIds
  let sas := sortAndStride strip zones values uniq perm
  let sel := fun u => ids.contains u
  { zone := ids
    cols := funcs.map (fun f =>
      ((uniq.zip (calcStats valid nanρ f sas uniq sel)).filter (fun p => sel p.1)).map Prod.snd) }

/-- `result[stats_id][zs] = v` on a flat raster -/
def scatter (res : Nat → ρ) (zs : List Nat) (v : ρ) : Nat → ρ :=
  fun j => if zs.contains j then v else res j

/-- `_stats_numpy(..., return_type='xarray.DataArray')`: one flat raster per statistic -/
def statsRaster [LT κ] [DecidableLT κ] [DecidableEq κ] (strip : Bool) (zones : Nat → X κ)
    (values : Nat → ν) (cells : List Nat) (valid : ν → Bool) (nanρ : ρ) (funcs : List (List ν → ρ))
    (zoneIds : Option (List κ)) (perm : List Nat) : List (Nat → ρ) :=
  let uniq := uniqueZones zones cells
  let ids := selectZoneIds uniq zoneIds
  let sas := sortAndStride strip zones values uniq perm
  let sel := fun u => ids.contains u
  funcs.map (fun f =>
    let st := calcStats valid nanρ f sas uniq sel
    -- position iz of unique_zones: statistic and `sorted_indices[breaks[iz-1]:breaks[iz]]`
    let rows := uniq.zip (st.zip (zoneSlices sas.idx 0 sas.breaks))
    ids.foldl (fun res z =>
      match rows.find? (fun r => r.1 == z) with
      | some r => scatter res r.2.2 r.2.1
      | none => res) (fun _ => nanρ))

/-! ### the built-in reducers (numpy's documented definitions over exact arithmetic) -/

section reducers
variable {F : Type} [Add F] [Sub F] [Mul F] [Div F] [Zero F] [NatCast F] [LT F] [DecidableLT F]

def rsum (l : List F) : F := l.sum
def rcount (l : List F) : F := (l.length : F)
def rmean (l : List F) : F := rsum l / rcount l
def rsumsq (l : List F) : F := (l.map (fun x => x * x)).sum
/-- population variance: mean of the squared deviations from the mean -/
def rvar (l : List F) : F := (l.map (fun x => (x - rmean l) * (x - rmean l))).sum / rcount l
def rmax : List F → F
  | [] => 0
  | x :: xs => xs.foldl (fun a b => if a < b then b else a) x
def rmin : List F → F
  | [] => 0
  | x :: xs => xs.foldl (fun a b => if b < a then b else a) x

inductive Stat where
  | mean | max | min | sum | std | var | count
  deriving DecidableEq, Repr, Inhabited

/-- `_DEFAULT_STATS[s]` on an array of finite numbers; `sqrt` is uninterpreted -/
def Stat.eval (sqrt : F → F) : Stat → List F → F
  | .mean, l => rmean l
  | .max, l => rmax l
  | .min, l => rmin l
  | .sum, l => rsum l
  | .std, l => sqrt (rvar l)
  | .var, l => rvar l
  | .count, l => rcount l

/-- `np.isfinite(v) & (v != nodata_values)` (IEEE `!=`; `nodata = none` is Python's `None`) -/
def validX [DecidableEq F] (nodata : Option (X F)) : X F → Bool
  | .fin q => !(decide (nodata = some (.fin q)))
  | _ => false

/-! ### the validity filter as it is written in the source

  `_calc_stats`, `_find_cats`, `_single_zone_crosstab_2d/_3d` select `A[mask]` with a NumPy boolean mask built
  from `np.isfinite` / `np.isnan` / `np.isinf`, elementwise comparisons with the scalar `nodata_values` and
  `& | ~`.  harness/facts_zonal.py translates each mask into an `MExpr`; `MExpr.eval` is NumPy's meaning of it
  on one element (IEEE comparisons: NaN and `None` are equal to nothing). -/

inductive MExpr where
  | isfinite | isnan | isinf
  | neNodata | eqNodata          -- `v != nodata_values`, `v == nodata_values`
  | nodataNone                   -- `nodata_values is None`
  | tt
  | and (a b : MExpr) | or (a b : MExpr) | not (a : MExpr)
  | unknown                      -- a mask the translator does not understand
  deriving Repr, DecidableEq

/-- IEEE `==` of an array element with the scalar `nodata_values` -/
def ieeeEq [DecidableEq F] (nodata : Option (X F)) (v : X F) : Bool :=
  match nodata, v with
  | none, _ => false
  | some .nan, _ => false
  | _, .nan => false
  | some n, v => decide (n = v)

def MExpr.eval [DecidableEq F] (nodata : Option (X F)) : MExpr → X F → Bool
  | .isfinite, v => v.isFin
  | .isnan, v => decide (v = .nan)
  | .isinf, v => decide (v = .pinf) || decide (v = .ninf)
  | .neNodata, v => !ieeeEq nodata v
  | .eqNodata, v => ieeeEq nodata v
  | .nodataNone, _ => nodata.isNone
  | .tt, _ => true
  | .and a b, v => a.eval nodata v && b.eval nodata v
  | .or a b, v => a.eval nodata v || b.eval nodata v
  | .not a, v => !a.eval nodata v
  | .unknown, _ => false

/-- a built-in reducer as it is applied to the filtered zone values; result `none` = NaN -/
def Stat.func (sqrt : F → F) (s : Stat) : List (X F) → Option F :=
  fun l => some (s.eval sqrt (l.filterMap X.toFin?))

end reducers

end XrsVerif.Zonal
