import XrsVerif.Core.Wire
/-
  Model of `zonal._trim`, `zonal._crop`, `zonal.trim`, `zonal.crop` (C18).  No Mathlib import.

  Both kernels run four directional scans of the same shape

      cur = 0; scan_complete = False
      for y in <order>:
          if scan_complete: break
          cur = y
          <inner loop over the other axis: scan_complete = True at the first hit>

  (`scan`), a *hit* being a kept cell (trim: value not in the exclusion list) or a selected cell
  (crop: zone id in the list).  The public functions slice the raster by the four results.

  The model follows the repaired code:
    fixes/D5-…   `_trim` compares NaN-aware (`e == val or (isnan(e) and isnan(val))`), so a listed NaN
                 is excluded;
    fixes/D16-…  when the first scan finds nothing both kernels return the empty window (0,-1,0,-1)
                 instead of (rows-1, 0, cols-1, 0), which is a non-empty window for a 1×1 raster.
  Values are `Wire.Num` (NaN, ±inf, exact rationals); structural equality on `Num` is the NaN-aware
  equality, `ieeeEq` is the `==` of floats.
-/
namespace XrsVerif.Trim
open XrsVerif.Wire

/-- one directional scan: (last assigned index, scan_complete) -/
def scan (ys : List Nat) (hit : Nat → Bool) : Nat × Bool :=
  ys.foldl (fun s y => if s.2 then s else (y, hit y)) (0, false)

/-- inner loops: does row `y` / column `x` hold a hit -/
def rowHit (cols : Nat) (hit : Nat → Nat → Bool) (y : Nat) : Bool := (List.range cols).any (fun x => hit y x)
def colHit (rows : Nat) (hit : Nat → Nat → Bool) (x : Nat) : Bool := (List.range rows).any (fun y => hit y x)

/-- `(top, bottom, left, right)` as returned by `_trim` / `_crop` -/
structure Bounds where
  top : Int
  bottom : Int
  left : Int
  right : Int
  deriving DecidableEq, Repr

def bounds (rows cols : Nat) (hit : Nat → Nat → Bool) : Bounds :=
  let t := scan (List.range rows) (rowHit cols hit)
  if !t.2 then ⟨0, -1, 0, -1⟩ else
    ⟨t.1,
     (scan (List.range rows).reverse (rowHit cols hit)).1,
     (scan (List.range cols) (colHit rows hit)).1,
     (scan (List.range cols).reverse (colHit rows hit)).1⟩

/-- the `==` of floats: NaN equals nothing -/
def ieeeEq (a b : Num) : Bool := a != Num.nan && a == b

/-- `_trim` (repaired): a cell is kept unless some listed value equals it, NaN matching NaN -/
def kept (excludes : List Num) (v : Num) : Bool := !(excludes.any (fun e => e == v))

/-- `_crop`: a zone cell is selected when some listed id `==` it -/
def selected (ids : List Num) (v : Num) : Bool := ids.any (fun e => ieeeEq e v)

/-- a labelled raster: cells, the two coordinate vectors, attrs -/
structure Raster (κ τ : Type) where
  rows : Nat
  cols : Nat
  cell : Nat → Nat → Num
  ys : Nat → κ
  xs : Nat → κ
  attrs : τ

/-- the result DataArray -/
structure Window (κ τ : Type) where
  cells : List (List Num)
  ys : List κ
  xs : List κ
  attrs : τ
  name : String

/-- positions selected by the Python slice `[lo:hi]` on an axis of length `n` (`0 ≤ lo`, `0 ≤ hi`):
    `lo, lo+1, …, min(hi,n)-1` -/
def sliceIdx (n : Nat) (lo hi : Int) : List Nat := List.range' lo.toNat (min hi.toNat n - lo.toNat)

/-- `raster[top: bottom + 1, left: right + 1]`, then `.name = name` -/
def window {κ τ : Type} (r : Raster κ τ) (b : Bounds) (name : String) : Window κ τ :=
  let ri := sliceIdx r.rows b.top (b.bottom + 1)
  let ci := sliceIdx r.cols b.left (b.right + 1)
  ⟨ri.map fun y => ci.map fun x => r.cell y x, ri.map r.ys, ci.map r.xs, r.attrs, name⟩

def trimBounds {κ τ : Type} (r : Raster κ τ) (excludes : List Num) : Bounds :=
  bounds r.rows r.cols (fun y x => kept excludes (r.cell y x))

def cropBounds {κ τ : Type} (zones : Raster κ τ) (ids : List Num) : Bounds :=
  bounds zones.rows zones.cols (fun y x => selected ids (zones.cell y x))

def trim {κ τ : Type} (r : Raster κ τ) (excludes : List Num) (name : String := "trim") : Window κ τ :=
  window r (trimBounds r excludes) name

def crop {κ τ : Type} (zones values : Raster κ τ) (ids : List Num) (name : String := "crop") : Window κ τ :=
  window values (cropBounds zones ids) name

/-! ### the unrepaired kernels (pinned commit), kept to state what they do where they differ -/

/-- `_trim` before fixes/D5: `e == val` -/
def keptAsIs (excludes : List Num) (v : Num) : Bool := !(excludes.any (fun e => ieeeEq e v))

/-- `_trim` / `_crop` before fixes/D16: no early return -/
def boundsAsIs (rows cols : Nat) (hit : Nat → Nat → Bool) : Bounds :=
  ⟨(scan (List.range rows) (rowHit cols hit)).1,
   (scan (List.range rows).reverse (rowHit cols hit)).1,
   (scan (List.range cols) (colHit rows hit)).1,
   (scan (List.range cols).reverse (colHit rows hit)).1⟩

end XrsVerif.Trim
