import XrsVerif.Core.Wire
/-
  Model of `zonal._trim`, `zonal._crop`, `zonal.trim`, `zonal.crop` (C18).  No Mathlib import.

  Both kernels run four directional scans of the same shape

      cur = 0; scan_complete = False
      for y in <order>:
          if scan_complete: break
          cur = y
          <inner loop over the other axis: scan_complete = True at the first hit>

  (`scan`), a *hit* being a kept cell (trim: value not in the exclusion list) or a selected cell
  (crop: zone id in the list).  The public functions slice the raster by the four results.

  The model follows the repaired code:
    fixes/D5-…   `_trim` compares NaN-aware (`e == val or (isnan(e) and isnan(val))`), so a listed NaN
                 is excluded;
    fixes/D16-…  when the first scan finds nothing both kernels return the empty window (0,-1,0,-1)
                 instead of (rows-1, 0, cols-1, 0), which is a non-empty window for a 1×1 raster.
  Values are `Wire.Num` (NaN, ±inf, exact rationals); structural equality on `Num` is the NaN-aware
  equality, `ieeeEq` is the `==` of floats.
-/
namespace XrsVerif.Trim
open XrsVerif.Wire

/-- one directional scan: (last assigned index, scan_complete) -/
def scan (ys : List Nat) (hit : Nat → Bool) : Nat × Bool :=
  ys.foldl (fun s y => if s.2 then s else (y, hit y)) (0, false)

/-- inner loops: does row `y` / column `x` hold a hit -/
def rowHit (cols : Nat) (hit : Nat → Nat → Bool) (y : Nat) : Bool := (List.range cols).any (fun x => hit y x)
def colHit (rows : Nat) (hit : Nat → Nat → Bool) (x : Nat) : Bool := (List.range rows).any (fun y => hit y x)

/-- `(top, bottom, left, right)` as returned by `_trim` / `_crop` -/
structure Bounds where
  top : Int
  bottom : Int
  left : Int
  right : Int
  deriving DecidableEq, Repr

def bounds (rows cols : Nat) (hit : Nat → Nat → Bool) : Bounds :=
  let t := scan (List.range rows) (rowHit cols hit)
  if !t.2 then ⟨0, -1, 0, -1⟩ else
    ⟨t.1,
     (scan (List.range rows).reverse (rowHit cols hit)).1,
     (scan (List.range cols) (colHit rows hit)).1,
     (scan (List.range cols).reverse (colHit rows hit)).1⟩

/-- the `==` of floats: NaN equals nothing -/
def ieeeEq (a b : Num) : Bool := a != Num.nan && a == b

/-- `_trim` (repaired): a cell is kept unless some listed value equals it, NaN matching NaN -/
def kept (excludes : List Num) (v : Num) : Bool := !(excludes.any (fun e => e == v))

/-- `_crop`: a zone cell is selected when some listed id `==` it -/
def selected (ids : List Num) (v : Num) : Bool := ids.any (fun e => ieeeEq e v)

/-- a coordinate *variable* of the raster other than a bare label vector: a scalar coordinate (`spatial_ref`, `band`,
    `time`), a 1-D coordinate along one of the two dimensions (the dimension coordinate itself, with its attrs, or an
    extra one), or a 2-D auxiliary coordinate (lon / lat on (y, x)).  `onY` / `onX` say which dimensions it has;
    `val y x` is its label at a position and does not depend on the position along a dimension it does not have
    (read at 0 there); it has attrs of its own. -/
structure Coord (κ τ : Type) where
  name : String
  onY : Bool
  onX : Bool
  val : Nat → Nat → κ
  attrs : τ

/-- a coordinate variable of the result: its labels as rows (one row / one column for a dimension it does not have) -/
structure WCoord (κ τ : Type) where
  name : String
  onY : Bool
  onX : Bool
  vals : List (List κ)
  attrs : τ

/-- a labelled raster: cells, the two coordinate vectors, attrs, and every coordinate variable it carries -/
structure Raster (κ τ : Type) where
  rows : Nat
  cols : Nat
  cell : Nat → Nat → Num
  ys : Nat → κ
  xs : Nat → κ
  attrs : τ
  coords : List (Coord κ τ) := []

/-- the result DataArray -/
structure Window (κ τ : Type) where
  cells : List (List Num)
  ys : List κ
  xs : List κ
  attrs : τ
  name : String
  coords : List (WCoord κ τ) := []

/-- positions selected by the Python slice `[lo:hi]` on an axis of length `n` (`0 ≤ lo`, `0 ≤ hi`):
    `lo, lo+1, …, min(hi,n)-1` -/
def sliceIdx (n : Nat) (lo hi : Int) : List Nat := List.range' lo.toNat (min hi.toNat n - lo.toNat)

/-- positional indexing of one coordinate variable by the row / column positions `ri` / `ci` of the window: it is
    restricted along the dimensions it has and left alone along the others -/
def Coord.restrict {κ τ : Type} (c : Coord κ τ) (ri ci : List Nat) : WCoord κ τ :=
  ⟨c.name, c.onY, c.onX,
   (if c.onY then ri else [0]).map fun y => (if c.onX then ci else [0]).map fun x => c.val y x, c.attrs⟩

/-- `raster[top: bottom + 1, left: right + 1]`, then `.name = name`: cells, both label vectors and every coordinate
    variable are taken at the same positions -/
def window {κ τ : Type} (r : Raster κ τ) (b : Bounds) (name : String) : Window κ τ :=
  let ri := sliceIdx r.rows b.top (b.bottom + 1)
  let ci := sliceIdx r.cols b.left (b.right + 1)
  ⟨ri.map fun y => ci.map fun x => r.cell y x, ri.map r.ys, ci.map r.xs, r.attrs, name,
   r.coords.map fun c => c.restrict ri ci⟩

def trimBounds {κ τ : Type} (r : Raster κ τ) (excludes : List Num) : Bounds :=
  bounds r.rows r.cols (fun y x => kept excludes (r.cell y x))

def cropBounds {κ τ : Type} (zones : Raster κ τ) (ids : List Num) : Bounds :=
  bounds zones.rows zones.cols (fun y x => selected ids (zones.cell y x))

def trim {κ τ : Type} (r : Raster κ τ) (excludes : List Num) (name : String := "trim") : Window κ τ :=
  window r (trimBounds r excludes) name

def crop {κ τ : Type} (zones values : Raster κ τ) (ids : List Num) (name : String := "crop") : Window κ τ :=
  window values (cropBounds zones ids) name

/-! ### the shape of the source, as read from the `ast` by harness/facts_trim.py (Gen/TrimFacts.lean)

  The generated constants say *which* comparison the kernels use, in which direction and over which range
  each scan runs, and what the public wrappers do to the value / id list on its way to the kernel.  The
  functions below interpret such a shape; Props/C18.lean proves that the shapes found in the current source
  are the canonical ones and that their interpretation is the hand model above, and states the property
  for the interpretation of the generated shapes.  An unrecognised piece of source is `.other "<text>"`
  (or `ok := false`), which no theorem accepts. -/

/-- the test applied to a listed value `e` and a cell `val` -/
inductive Match where
  | eq                      -- `e == val`  (either way round)
  | eqOrBothNan             -- `e == val or (np.isnan(e) and np.isnan(val))`
  | other (src : String)    -- anything else, e.g. a call `np.isclose(e, val)`
  deriving DecidableEq, Repr, Inhabited

inductive Axis where
  | rows | cols | other
  deriving DecidableEq, Repr, Inhabited

/-- `range(n)` / `range(0, n)` is `up`, `range(n - 1, -1, -1)` is `down`: the full axis either way -/
inductive Dir where
  | up | down | other (src : String)
  deriving DecidableEq, Repr, Inhabited

/-- what a match means: crop stops at a cell that matches an id, trim at a cell that matches no excluded value -/
inductive Polarity where
  | hitIfMatched | hitIfUnmatched | other
  deriving DecidableEq, Repr, Inhabited

structure ScanShape where
  /-- `cur = 0; done = False; for a in <range>: if done: break; cur = a; for b in <full other axis>: val = data[..]; …` -/
  ok : Bool
  axis : Axis
  dir : Dir
  /-- the inner loop visits every cell `data[y, x]` of that row / column -/
  innerFull : Bool
  mtch : Match
  polarity : Polarity
  deriving DecidableEq, Repr, Inhabited

structure KernelShape where
  ok : Bool
  /-- the four scans in the order of the returned tuple `(top, bottom, left, right)` -/
  scans : List ScanShape
  /-- `if not scan_complete: return 0, -1, 0, -1` right after the first scan -/
  emptyEarly : Bool
  deriving DecidableEq, Repr, Inhabited

/-- what a wrapper does to the caller's value / id list before the kernel sees it -/
inductive ListCast where
  | none | other (src : String)
  deriving DecidableEq, Repr, Inhabited

structure WrapperShape where
  ok : Bool
  /-- the kernel that is called -/
  kernel : String
  /-- index of the parameter whose `.data` is the kernel's first argument -/
  dataParam : Nat
  /-- index of the parameter handed over as the kernel's second argument, and what is done to it before -/
  listParam : Nat
  listCast : ListCast
  /-- index of the parameter that is sliced `[top: bottom + 1, left: right + 1]` -/
  slicedParam : Nat
  /-- the slice is exactly `[top: bottom + 1, left: right + 1]` of the kernel's four results -/
  sliceOk : Bool
  /-- `.name = name` is set on the slice, which is returned -/
  named : Bool
  deriving DecidableEq, Repr, Inhabited

def matchS : Match → Num → Num → Bool
  | .eq, e, v => ieeeEq e v
  | .eqOrBothNan, e, v => ieeeEq e v || (e == Num.nan && v == Num.nan)
  | .other _, _, _ => false

def hitS (m : Match) (p : Polarity) (listed : List Num) (v : Num) : Bool :=
  match p with
  | .hitIfMatched => listed.any (fun e => matchS m e v)
  | .hitIfUnmatched => !(listed.any (fun e => matchS m e v))
  | .other => false

def dirRange : Dir → Nat → List Nat
  | .up, n => List.range n
  | .down, n => (List.range n).reverse
  | .other _, _ => []

def scanS (s : ScanShape) (rows cols : Nat) (cell : Nat → Nat → Num) (listed : List Num) : Nat × Bool :=
  let hit := fun y x => hitS s.mtch s.polarity listed (cell y x)
  match s.axis with
  | .rows => scan (dirRange s.dir rows) (rowHit cols hit)
  | .cols => scan (dirRange s.dir cols) (colHit rows hit)
  | .other => (0, false)

/-- the kernel as its shape describes it -/
def boundsS (k : KernelShape) (rows cols : Nat) (cell : Nat → Nat → Num) (listed : List Num) : Bounds :=
  match k.scans with
  | [t, b, l, r] =>
    let st := scanS t rows cols cell listed
    if k.emptyEarly && !st.2 then ⟨0, -1, 0, -1⟩ else
      ⟨st.1, (scanS b rows cols cell listed).1, (scanS l rows cols cell listed).1, (scanS r rows cols cell listed).1⟩
  | _ => ⟨0, -1, 0, -1⟩

def castS : ListCast → List Num → List Num
  | .none, l => l
  | .other _, _ => []

/-- `trim` / `crop` as the shapes of wrapper and kernel describe them: the list goes through the wrapper's
    cast, the kernel scans `data`, the window is cut from `sliced` -/
def windowS {κ τ : Type} (k : KernelShape) (w : WrapperShape) (data sliced : Raster κ τ) (listed : List Num)
    (name : String) : Window κ τ :=
  window sliced (boundsS k data.rows data.cols data.cell (castS w.listCast listed)) name

/-! ### the unrepaired kernels (pinned commit), kept to state what they do where they differ -/

/-- `_trim` before fixes/D5: `e == val` -/
def keptAsIs (excludes : List Num) (v : Num) : Bool := !(excludes.any (fun e => ieeeEq e v))

/-- `_trim` / `_crop` before fixes/D16: no early return -/
def boundsAsIs (rows cols : Nat) (hit : Nat → Nat → Bool) : Bounds :=
  ⟨(scan (List.range rows) (rowHit cols hit)).1,
   (scan (List.range rows).reverse (rowHit cols hit)).1,
   (scan (List.range cols) (colHit rows hit)).1,
   (scan (List.range cols).reverse (colHit rows hit)).1⟩

end XrsVerif.Trim
