import XrsVerif.Model.Viewshed
/-
  C05 -- the colour fix-ups of viewshed's red-black status tree as functions on the model tree
  (no Mathlib: may be linked into the driver).

  `Model/Viewshed.lean` describes what `_rb_insert_fixup` / `_rb_delete_fixup` *may* do (`Rebal`: any sequence of
  rotations with the code's augmentation repair, and recolourings).  Here is what they *do*: the loops of CLRS
  13.3 / 13.4 as the code has them, written over the whole tree with the position of the current node given as a
  path (innermost step first).  Every step is `atPath (rotL S)`, `atPath (rotR S)` or `atPath (setCol c)` at some
  position -- so the result is `Rebal`-related to the argument (Proofs/ViewshedFix.lean), and the generated programs
  are proved to compute exactly these functions (Proofs/ILViewshedFix*.lean).
-/
namespace XrsVerif.Viewshed

section
variable {α : Type} [LT α] [DecidableLT α] [LE α] [DecidableLE α]

/-- the subtree at a path -/
def subAt : List Dir → Tree α → Tree α
  | [], t => t
  | _ :: _, .nil => .nil
  | .L :: p, .node l _ _ _ _ => subAt p l
  | .R :: p, .node _ _ _ _ r => subAt p r

/-- `tree_nodes[x][TN_COLOR_ID] == RB_RED`; the NIL row is black -/
def isRed : Tree α → Bool
  | .nil => false
  | .node _ _ _ c _ => c

/-- `tree_nodes[x][TN_COLOR_ID] = c` at the root of a subtree -/
def setCol (c : Bool) : Tree α → Tree α
  | .nil => .nil
  | .node l n mx _ r => .node l n mx c r

def Dir.flip : Dir → Dir
  | .L => .R
  | .R => .L

/-- `_left_rotate` for `L`, `_right_rotate` for `R` -/
def rotD (S : α) : Dir → Tree α → Tree α
  | .L => rotL S
  | .R => rotR S

/-- the loop of `_rb_insert_fixup`.  The current node `z` sits at the path `rp` (innermost step first:
    `rp = dz :: dp :: rq`, `z` the `dz`-child of its parent, the parent the `dp`-child of the grandparent at
    `rq.reverse`).  While the parent is red: a red uncle recolours and moves `z` two levels up; otherwise an inner
    child is first rotated outwards, then parent black / grandparent red and the rotation at the grandparent end
    the loop. -/
def insFixP (S : α) : List Dir → Tree α → Tree α
  | dz :: dp :: rq, t =>
    let pg := rq.reverse
    let pp := pg ++ [dp]
    if isRed (subAt pp t) then
      let pu := pg ++ [dp.flip]
      if isRed (subAt pu t) then
        insFixP S rq (atPath (setCol true) pg (atPath (setCol false) pu (atPath (setCol false) pp t)))
      else
        let t1 := if dz = dp then t else atPath (rotD S dp) pp t
        atPath (rotD S dp.flip) pg (atPath (setCol true) pg (atPath (setCol false) pp t1))
    else t
  | _, t => t

/-- `_rb_insert_fixup`: the loop, then the root is blackened -/
def rbInsFix (S : α) (rp : List Dir) (t : Tree α) : Tree α := setCol false (insFixP S rp t)

/-- the descent of `_insert_into_tree` as a path, innermost step first (equal keys go right) -/
def insDirsR (K : α) : Tree α → List Dir → List Dir
  | .nil, acc => acc
  | .node l n _ _ r, acc => if K < n.key then insDirsR K l (.L :: acc) else insDirsR K r (.R :: acc)

/-- **`_insert_into_tree`** complete: leaf insertion with its upward propagation, then the colour fix-up started
    at the new leaf -/
def rbInsert (S : α) (nn : Node α) (t : Tree α) : Tree α :=
  rbInsFix S (insDirsR nn.key t []) (leafInsert nn t)

/-! ### the deletion -/

/-- one iteration of `_rb_delete_fixup` after case 1: `x` is the `dx`-child of its parent at `rq1.reverse`, `c1` says
    whether case 1 (red sibling) was applied (then the parent is red), `k` is the rest of the loop one level up.
    A NIL sibling, or one with two black children (case 2: sibling red), moves `x` to its parent; otherwise a black
    far child of the sibling is first repaired by a rotation at the sibling (case 3), then the sibling takes the
    parent's colour, the parent and the far child become black and the rotation at the parent ends the loop with
    `x = root` (case 4). -/
def dfB (S : α) (dx : Dir) (c1 : Bool) (rq1 : List Dir) (k : Tree α → Tree α × List Dir) (t1 : Tree α) :
    Tree α × List Dir :=
  let pp1 := rq1.reverse
  let pw1 := pp1 ++ [dx.flip]
  match subAt pw1 t1 with
  | .nil => if c1 then (t1, rq1) else k t1
  | .node wl _ _ _ wr =>
    let near := match dx with | .L => wl | .R => wr
    let far := match dx with | .L => wr | .R => wl
    if !(isRed near) && !(isRed far) then
      let t2 := atPath (setCol true) pw1 t1
      if c1 then (t2, rq1) else k t2
    else
      let t3 := if !(isRed far) then
          atPath (rotD S dx.flip) pw1 (atPath (setCol true) pw1 (atPath (setCol false) (pw1 ++ [dx]) t1))
        else t1
      let cp := isRed (subAt pp1 t3)
      (atPath (rotD S dx) pp1 (atPath (setCol false) (pw1 ++ [dx.flip]) (atPath (setCol false) pp1
        (atPath (setCol cp) pw1 t3))), [])

/-- the loop of `_rb_delete_fixup`.  `x` sits at the path `rp` (innermost step first: `x` the `dx`-child of its
    parent at `rq.reverse`); returns the tree and the position of `x` when the loop ends.  While `x` is not the root
    and black: a red sibling `w` is first rotated above the parent (case 1: sibling black, parent red, rotation at the
    parent), then `dfB`. -/
def delFixP (S : α) : List Dir → Tree α → Tree α × List Dir
  | [], t => (t, [])
  | dx :: rq, t =>
    if isRed (subAt (dx :: rq).reverse t) then (t, dx :: rq)
    else
      let pp := rq.reverse
      let pw := pp ++ [dx.flip]
      if isRed (subAt pw t) then
        dfB S dx true (dx :: rq) (delFixP S rq)
          (atPath (rotD S dx) pp (atPath (setCol true) pp (atPath (setCol false) pw t)))
      else dfB S dx false rq (delFixP S rq) t

/-- `_rb_delete_fixup`: the loop, then `x` is blackened -/
def rbDelFix (S : α) (rp : List Dir) (t : Tree α) : Tree α :=
  atPath (setCol false) (delFixP S rp t).2.reverse (delFixP S rp t).1

/-- `x == NIL` -/
def isNil : Tree α → Bool
  | .nil => true
  | .node _ _ _ _ _ => false

/-- the leftmost node of `.node l _ _ c r` below the path `acc`: its path (innermost step first), whether it is red,
    whether its right child is NIL -/
def minInfo : Tree α → Bool → Tree α → List Dir → List Dir × Bool × Bool
  | .nil, c, r, acc => (acc, c, isNil r)
  | .node a _ _ ac ar, _, _, acc => minInfo a ac ar (.L :: acc)

/-- the node `y` that `_delete_from_tree` splices out for the key `k` (the node with the key, or its in-order
    successor when it has two children): its path (innermost step first), whether it is red, whether its only
    child `x` is NIL; `none` = the key is absent -/
def spliceInfo (k : α) : Tree α → List Dir → Option (List Dir × Bool × Bool)
  | .nil, _ => none
  | .node l n _ c r, acc =>
    if k < n.key then spliceInfo k l (.L :: acc)
    else if n.key < k then spliceInfo k r (.R :: acc)
    else
      match l, r with
      | .nil, r => some (acc, c, isNil r)
      | .node _ _ _ _ _, .nil => some (acc, c, false)
      | .node _ _ _ _ _, .node rl _ _ mc rr => some (minInfo rl mc rr (.R :: acc))

/-- **`_delete_from_tree` complete**: the splice / successor copy with the code's augmentation repairs (`delCore`),
    then -- when a black node was spliced out and its child `x` is not NIL -- the colour fix-up started at `x`
    (which has taken `y`'s place) -/
def rbDelete (S k : α) (t : Tree α) : Option (Tree α) :=
  match spliceInfo k t [] with
  | none => none
  | some (rp, yred, xnil) => (delCore S k t).map fun t1 => if !yred && !xnil then rbDelFix S rp t1 else t1

end

end XrsVerif.Viewshed
