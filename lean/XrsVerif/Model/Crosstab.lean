import XrsVerif.Model.ZonalDask
/-
  Model/Crosstab.lean -- hand model of `xrspatial.zonal.crosstab`
  (zonal.py `_find_cats`, `_single_zone_crosstab_2d/_3d`, `_crosstab_numpy`,
  `_single_chunk_crosstab`, `_select_ids`, `_crosstab_df_dask`, `_crosstab_dask_numpy`).

  Position faithful where the defects live:
  * the running offset `cat_start` of `_single_zone_crosstab_2d` is advanced either for every
    category (`always = true`, the repaired code) or only for the selected ones (defect D3);
  * the rows are computed in the order of `unique_zones`, the `zone` column is a separate list:
    either the requested ids in *request* order (defect D4) or in computed order (`sortedRows`).
  The flags are read from the source by harness/facts_zonal.py (Gen/Zonal.lean).
  No Mathlib import.
-/
namespace XrsVerif.Zonal

variable {κ γ : Type}

/-- `_find_cats`, 2-D: `np.unique` of the finite, non-nodata values -/
def findCats2d [LT γ] [DecidableLT γ] [DecidableEq γ] (values : Nat → X γ) (valid : X γ → Bool)
    (cells : List Nat) : List γ :=
  sortDedup (cells.filterMap (fun i => if valid (values i) then (values i).toFin? else none))

/-- `[c for c in cat_ids if c in unique_cats]` / `_select_ids(unique_ids, ids)` -/
def selectIds {α : Type} [DecidableEq α] (existing : List α) : Option (List α) → List α
  | none => existing
  | some req => req.filter (fun c => existing.contains c)

/-- the `zone` column -/
def zoneLabels [DecidableEq κ] (sortedRows : Bool) (uniq : List κ) : Option (List κ) → List κ
  | none => uniq
  | some req =>
    if sortedRows then uniq.filter (fun z => req.contains z)
    else req.filter (fun z => uniq.contains z)

/-- `for j, cat in enumerate(unique_cats)` of `_single_zone_crosstab_2d`
    (`catStart` is the running offset, the list pairs every category with its break) -/
def catLoop [DecidableEq γ] (always : Bool) (sel : γ → Bool) : Nat → List (γ × Nat) → List (γ × Nat)
  | _, [] => []
  | catStart, (c, b) :: rest =>
    if sel c then (c, b - catStart) :: catLoop always sel b rest
    else catLoop always sel (if always then b else catStart) rest

/-- `_single_zone_crosstab_2d`: (total count, [(category, count)] for the selected categories) -/
def singleZone2d [LT γ] [DecidableLT γ] [DecidableEq γ] (always : Bool) (valid : X γ → Bool)
    (uniqCats catIds : List γ) (zoneValues : List (X γ)) : Nat × List (γ × Nat) :=
  let zv := zoneValues.filter valid
  let sorted := isort (zv.filterMap X.toFin?)
  let breaks := strides sorted 0 uniqCats
  (zv.length, catLoop always (fun c => catIds.contains c) 0 (uniqCats.zip breaks))

/-- a crosstab DataFrame: `zone` column, the category columns in the order of `cats`,
    one data row per computed zone (`total` is the hidden `_total_count` column) -/
structure CTable (κ γ ρ : Type) where
  zone : List κ
  cats : List γ
  total : List Nat
  rows : List (List ρ)
  deriving Repr, DecidableEq

def lookupD {α β : Type} [DecidableEq α] (d : β) (k : α) : List (α × β) → β
  | [] => d
  | (a, b) :: rest => if a = k then b else lookupD d k rest

section numpy2d
variable [LT κ] [DecidableLT κ] [DecidableEq κ] [LT γ] [DecidableLT γ] [DecidableEq γ]

/-- the per-zone loop shared by `_crosstab_numpy` and `_single_chunk_crosstab` (2-D) -/
def zoneRows2d (strip always : Bool) (zones : Nat → X κ) (values : Nat → X γ) (valid : X γ → Bool)
    (uniq : List κ) (sel : κ → Bool) (uniqCats catIds : List γ) (perm : List Nat) :
    List (Nat × List (γ × Nat)) :=
  let sas := sortAndStride strip zones values uniq perm
  ((uniq.zip (zoneSlices sas.vbz 0 sas.breaks)).filter (fun p => sel p.1)).map
    (fun p => singleZone2d always valid uniqCats catIds p.2)

/-- `_crosstab_numpy`, 2-D, counts; `none` = pandas raises (column lengths differ) -/
def crosstabNumpy2d (strip always sortedRows : Bool) (zones : Nat → X κ) (values : Nat → X γ)
    (valid : X γ → Bool) (cells : List Nat) (zoneIds : Option (List κ)) (catIds : Option (List γ))
    (perm : List Nat) : Option (CTable κ γ Nat) :=
  let uniqCats := findCats2d values valid cells
  let cats := selectIds uniqCats catIds
  let uniq := uniqueZones zones cells
  let ids := selectIds uniq zoneIds                 -- what `if unique_zones[i] in zone_ids` tests
  let data := zoneRows2d strip always zones values valid uniq (fun u => ids.contains u) uniqCats cats perm
  let labels := zoneLabels sortedRows uniq zoneIds
  if labels.length ≠ data.length then none
  else some { zone := labels, cats := cats, total := data.map Prod.fst
              rows := data.map (fun r => cats.map (fun c => lookupD 0 c r.2)) }

/-- `_crosstab_dask_numpy(...).compute()`, 2-D, counts: per-block tables added key-wise -/
def addRows : List (Nat × List Nat) → List (Nat × List Nat) → List (Nat × List Nat) :=
  List.zipWith (fun a b => (a.1 + b.1, List.zipWith (· + ·) a.2 b.2))

def crosstabDask2d (strip always sortedRows : Bool) (zones : Nat → X κ) (values : Nat → X γ)
    (valid : X γ → Bool) (cells : List Nat) (zoneIds : Option (List κ)) (catIds : Option (List γ))
    (blocks : List Block) : Option (CTable κ γ Nat) :=
  if blocks.any (fun b => !b.ok) then none else
  let uniqCats := findCats2d values valid cells
  let cats := selectIds uniqCats catIds
  let uniq := uniqueZones zones cells
  let ids := selectIds uniq zoneIds
  let per := blocks.map (fun b =>
    (zoneRows2d strip always (Block.fn b.zc zones) (Block.fn b.vc values) valid uniq
        (fun u => ids.contains u) uniqCats cats b.perm).map
      (fun r => (r.1, cats.map (fun c => lookupD 0 c r.2))))
  match per with
  | [] => none
  | first :: rest =>
    let data := rest.foldl addRows first
    let labels := zoneLabels sortedRows uniq zoneIds
    if labels.length ≠ data.length then none
    else some { zone := labels, cats := cats, total := data.map Prod.fst, rows := data.map Prod.snd }

end numpy2d

section finish
variable {F : Type} [Mul F] [Div F] [NatCast F]

/-- `agg='count'` leaves the counts, `agg='percentage'` divides by the zone's valid-cell count
    (0 replaced by NaN) and multiplies by 100 -/
def finishCell (pct : Bool) (total n : Nat) : Option F :=
  if pct then (if total = 0 then none else some ((n : F) / (total : F) * ((100 : Nat) : F)))
  else some (n : F)

def CTable.finish (pct : Bool) (t : CTable κ γ Nat) : CTable κ γ (Option F) :=
  { zone := t.zone, cats := t.cats, total := t.total
    rows := List.zipWith (fun tot r => r.map (finishCell pct tot)) t.total t.rows }

end finish

/-! ### the percentage expression, as it is written in the source

  `_crosstab_numpy` / `_crosstab_df_dask` compute `crosstab_dict[cat] / crosstab_dict[TOTAL_COUNT] * 100`.
  The per-category counts are NumPy integers of the width of the breaks `_strides` returns (their
  differences), the totals a float array, `100` a Python literal.  NumPy keeps integer × literal in the
  integer's own width (it wraps around), true division and anything that touches a float is floating
  point.  harness/facts_zonal.py translates the expression into a `PExpr` and the width into a number;
  `PExpr.eval` gives it that meaning: integers wrap to `bits` bits, floats are the exact field. -/

inductive PExpr where
  | count | total
  | lit (k : Nat)          -- an integer literal
  | flit (k : Nat)         -- a float literal with an integral value (`100.0`)
  | mul (a b : PExpr) | div (a b : PExpr)
  | unknown                -- a shape the translator does not know
  deriving Repr, DecidableEq

/-- a NumPy integer of the counts' width, a Python integer literal, or a float -/
inductive PVal (F : Type) where
  | int (i : Int) | weak (i : Int) | flt (x : F)

/-- two's-complement wrap-around to `bits` bits -/
def wrapS (bits : Nat) (i : Int) : Int := Int.bmod i (2 ^ bits)

section pexpr
variable {F : Type} [Mul F] [Div F] [IntCast F] [Zero F]

def PVal.toF : PVal F → F
  | .int i => (i : F)
  | .weak i => (i : F)
  | .flt x => x

def PExpr.eval (bits : Nat) (n : Int) (t : F) : PExpr → PVal F
  | .count => .int n
  | .total => .flt t
  | .lit k => .weak k
  | .flit k => .flt ((k : Int) : F)
  | .unknown => .flt 0
  | .mul a b =>
    match a.eval bits n t, b.eval bits n t with
    | .int x, .int y => .int (wrapS bits (x * y))
    | .int x, .weak y => .int (wrapS bits (x * y))
    | .weak x, .int y => .int (wrapS bits (x * y))
    | .weak x, .weak y => .weak (x * y)
    | u, v => .flt (u.toF * v.toF)
  | .div a b => .flt ((a.eval bits n t).toF / (b.eval bits n t).toF)

/-- one entry of the `percentage` table as the source computes it: total 0 was replaced by NaN -/
def pctCell (e : PExpr) (bits : Nat) (total n : Nat) : Option F :=
  if total = 0 then none else some (e.eval bits (n : Int) (((total : Nat) : Int) : F)).toF

/-- `CTable.finish` with the percentage taken through the source's expression -/
def CTable.finishSrc (e : PExpr) (bits : Nat) (pct : Bool) (t : CTable κ γ Nat) : CTable κ γ (Option F) :=
  { zone := t.zone, cats := t.cats, total := t.total
    rows := List.zipWith (fun tot r => r.map (fun n => if pct then pctCell e bits tot n else some ((n : Int) : F))) t.total t.rows }

end pexpr

section d3
variable [LT κ] [DecidableLT κ] [DecidableEq κ] [DecidableEq γ] {ν ρ : Type}

/-- the column of the layer found under a label (no column when there is none) -/
def optCol {α β : Type} (o : Option α) (f : α → List β) : List β :=
  match o with
  | some a => f a
  | none => []

/-- a 3-D crosstab DataFrame, column oriented: one column per selected layer -/
structure CTable3 (κ γ ρ : Type) where
  zone : List κ
  cats : List γ
  cols : List (List ρ)
  deriving Repr, DecidableEq

/-- `crosstab_dict[cat]` of `_single_zone_crosstab_3d` over the per-zone loop: the column of one layer -/
def layerCol (strip : Bool) (zones : Nat → X κ) (layer : Nat → ν) (valid : ν → Bool) (func : List ν → ρ)
    (uniq : List κ) (sel : κ → Bool) (perm : List Nat) : List ρ :=
  let sas := sortAndStride strip zones layer uniq perm
  ((uniq.zip (zoneSlices sas.vbz 0 sas.breaks)).filter (fun p => sel p.1)).map
    (fun p => func (p.2.filter valid))

/-- `_crosstab_numpy`, 3-D: the categories are the layers (label, raster), every layer is gathered
    with the same `sorted_indices`, every entry is `func` of the valid cells of that layer in the zone.
    `none` = pandas raises (column lengths differ). -/
def crosstabNumpy3d (strip sortedRows : Bool) (zones : Nat → X κ) (layers : List (γ × (Nat → ν)))
    (valid : ν → Bool) (func : List ν → ρ) (cells : List Nat)
    (zoneIds : Option (List κ)) (catIds : Option (List γ)) (perm : List Nat) : Option (CTable3 κ γ ρ) :=
  let uniqCats := layers.map Prod.fst
  let cats := selectIds uniqCats catIds
  let uniq := uniqueZones zones cells
  let ids := selectIds uniq zoneIds
  let sel := fun u => ids.contains u
  let labels := zoneLabels sortedRows uniq zoneIds
  let nsel := (uniq.filter sel).length
  if labels.length ≠ nsel then none
  else some { zone := labels, cats := cats
              cols := cats.map (fun c => optCol (layers.find? (fun l => l.1 == c))
                (fun l => layerCol strip zones l.2 valid func uniq sel perm)) }

/-- `_crosstab_dask_numpy(...).compute()`, 3-D (`agg='count'` only): per-block columns added -/
def crosstabDask3d (strip sortedRows : Bool) (zones : Nat → X κ) (layers : List (γ × (Nat → ν)))
    (valid : ν → Bool) (cells : List Nat) (zoneIds : Option (List κ)) (catIds : Option (List γ))
    (blocks : List Block) : Option (CTable3 κ γ Nat) :=
  if blocks.any (fun b => !b.ok) then none else
  let uniqCats := layers.map Prod.fst
  let cats := selectIds uniqCats catIds
  let uniq := uniqueZones zones cells
  let ids := selectIds uniq zoneIds
  let sel := fun u => ids.contains u
  let per := blocks.map (fun b => cats.map (fun c => optCol (layers.find? (fun l => l.1 == c))
    (fun l => layerCol strip (Block.fn b.zc zones) (Block.fn b.vc l.2) valid List.length uniq sel b.perm)))
  match per with
  | [] => none
  | first :: rest =>
    let cols := rest.foldl (List.zipWith (List.zipWith (· + ·))) first
    let labels := zoneLabels sortedRows uniq zoneIds
    if labels.length ≠ (uniq.filter sel).length then none
    else some { zone := labels, cats := cats, cols := cols }

end d3

end XrsVerif.Zonal
