/-
  Python number helpers used by the generated metric / kernel facts (Gen/MetricFacts.lean) and by the
  hand models of C19.  Mathlib-free (linked into the driver).
-/
namespace XrsVerif

/-- Python `int(q)` of a finite number: truncation toward zero -/
def pyInt (q : Rat) : Int := Int.tdiv q.num q.den

/-- Python `a // b` on ints: floor division -/
def pyFloorDiv (a b : Int) : Int := Int.fdiv a b

/-- a unit-table entry `(name, numerator, denominator)` as a rational factor -/
def ratOf (n : Int) (d : Nat) : Rat := (n : Rat) / (d : Rat)

/-! ### IEEE-754 binary64 rounding of an exact rational (round to nearest, ties to even).
    Used by the *driver* as the rounding function `rnd` of the C19 models, so that `float(literal)`,
    `distance * UNITS[unit]` and `r / cellsize` are reproduced bit for bit (overflow to ±inf is not
    represented).  The theorems are stated for an arbitrary monotone `rnd` with `rnd 0 = 0`. -/

def pow2 (e : Int) : Rat :=
  if e ≥ 0 then ((2 ^ e.toNat : Nat) : Rat) else 1 / ((2 ^ (-e).toNat : Nat) : Rat)

def roundHalfEven (m : Rat) : Int :=
  let fl := m.floor
  let fr := m - (fl : Rat)
  if fr < 1 / 2 then fl else if 1 / 2 < fr then fl + 1 else (if fl % 2 = 0 then fl else fl + 1)

/-- for `a > 0`: the `e` with `2^e ≤ a < 2^(e+1)` -/
def binExp (a : Rat) : Int :=
  let e0 : Int := (Nat.log2 a.num.natAbs : Int) - (Nat.log2 a.den : Int)
  if a < pow2 e0 then e0 - 1 else if pow2 (e0 + 1) ≤ a then e0 + 1 else e0

def roundF64 (q : Rat) : Rat :=
  if q = 0 then 0 else
  let a := if q < 0 then -q else q
  let e := binExp a
  let ulpE : Int := if e < -1022 then -1074 else e - 52
  let n := roundHalfEven (a / pow2 ulpE)
  let r := (n : Rat) * pow2 ulpE
  if q < 0 then -r else r

/-- IEEE-754 binary32 rounding of an exact rational (nearest, ties to even; subnormals below 2^-126;
    overflow to ±inf is not represented): `np.float32(x)` / `astype(np.float32)` of a finite double -/
def roundF32 (q : Rat) : Rat :=
  if q = 0 then 0 else
  let a := if q < 0 then -q else q
  let e := binExp a
  let ulpE : Int := if e < -126 then -149 else e - 23
  let n := roundHalfEven (a / pow2 ulpE)
  let r := (n : Rat) * pow2 ulpE
  if q < 0 then -r else r

end XrsVerif
