/-
  Python number helpers used by the generated metric / kernel facts (Gen/MetricFacts.lean) and by the
  hand models of C19.  Mathlib-free (linked into the driver).
-/
namespace XrsVerif

/-- Python `int(q)` of a finite number: truncation toward zero -/
def pyInt (q : Rat) : Int := Int.tdiv q.num q.den

/-- Python `a // b` on ints: floor division -/
def pyFloorDiv (a b : Int) : Int := Int.fdiv a b

/-- a unit-table entry `(name, numerator, denominator)` as a rational factor -/
def ratOf (n : Int) (d : Nat) : Rat := (n : Rat) / (d : Rat)

end XrsVerif
