/-!
  Buffer programs (C10): the buffer-level abstraction of a public wrapper and of every helper /
  numba kernel it reaches, generated from /repo's source by `harness/facts_bufprog.py`.

  * `Op`     one primitive effect on array buffers: allocate, copy, take a view, take a view whose
             view-or-copy nature is decided by the memory layout at run time, write through a
             variable, or something the translator could not classify (`unknown`).
  * `Prog`   structured programs: sequencing, two-way branches (the condition is abstracted away:
             either branch may run), loops (the body may run any number of times, zero included).
  * `Exec`   the concrete semantics: a heap of buffers named by numbers, variables pointing to
             buffers, a set of buffers written so far.  Non-deterministic exactly where the
             abstraction dropped information (branch taken, iteration count, layout-dependent view).
  * `acheck` the abstract checker: which variables may point into an *input* buffer ("taint").
             Branches are joined, loops are iterated to a post-fixpoint with fuel.
  * `safe`   no write through a possibly-input alias anywhere, and the returned variable is not one.

  Wrapper level.  A raster object has three components -- its cells (`data`), its coordinates
  (`coords`: the memory of the non-index coordinate variables) and its attributes (`attrs`: the attrs
  dict) -- each held by its own variable ("slot").  Every parameter of a public function contributes
  three input buffers.  `Op.build` is one xarray constructor / copy primitive (`DataArray(…)`,
  `copy(deep=…)`, `astype`, arithmetic, …): it fills the three slots of its result, each according to a
  `Mode` (fresh / deep copy / shallow = the source's own memory / decided at run time) taken from the
  primitive table (`WPrim`, generated from the table of harness/facts_bufprog.py, probed on the real
  xarray on every run).  `safeAll` demands that none of the three slots of the returned object can
  point into an input buffer.

  The soundness theorems (`Props/C10.lean`) are about all programs; the generated programs are then
  accepted by evaluating `safe` in the kernel.  No Mathlib.
-/
namespace XrsVerif.BP

/-- how a wrapper primitive obtains one component of its result -/
inductive Mode where
  | fresh      -- built anew; whatever source there is, is only read (a new dict, a computed array)
  | deep       -- a copy of the source component in memory of its own
  | shallow    -- the source component itself: shared memory
  | maybe      -- shared or copied, decided at run time (dtype / layout)
  deriving Repr, DecidableEq, Inhabited

/-- one component of the object a wrapper primitive builds: the slot variable that receives it, how it
    is obtained, and the variable that holds the source (`none`: nothing given) -/
structure Part where
  dst : Nat
  mode : Mode
  src : Option Nat
  deriving Repr, DecidableEq, Inhabited

/-- may the component end up in the source's memory / in memory of its own -/
def Part.mayShare (p : Part) : Bool :=
  match p.mode, p.src with
  | .shallow, some _ => true
  | .maybe, some _ => true
  | _, _ => false

def Part.mayCopy (p : Part) : Bool :=
  match p.mode, p.src with
  | .shallow, some _ => false
  | _, _ => true

/-- primitive buffer effects; `d` destination variable, `s` source variable -/
inductive Op where
  | alloc (d : Nat)          -- np.zeros / empty / full / arithmetic / ufunc result : fresh buffer
  | copyOf (d s : Nat)       -- astype / copy / flatten / fancy index : fresh buffer
  | viewOf (d s : Nat)       -- slice / .T / .data / asarray on an ndarray / DataArray(out) : same buffer
  | maybeView (d s : Nat)    -- ravel / reshape / astype(copy=False) / ascontiguousarray : layout decides
  | write (d : Nat)          -- d[...] = …, in-place operator, .sort(), .fill(), out=d
  | unknown                  -- construct outside the translator's table: anything may happen
  | build (data coords attrs : Part)   -- xarray constructor / copy primitive: the three components of its result
  deriving Repr, DecidableEq, Inhabited

/-- a row of the wrapper-level primitive table -/
structure WPrim where
  name : String
  data : Mode
  coords : Mode
  attrs : Mode
  deriving Repr, DecidableEq, Inhabited

/-- the three slot variables of an object -/
structure Obj where
  data : Nat
  coords : Nat
  attrs : Nat
  deriving Repr, DecidableEq, Inhabited

def Obj.slots (o : Obj) : List Nat := [o.data, o.coords, o.attrs]

/-- the primitive `p` building the object `d` from the given sources -/
def WPrim.build (p : WPrim) (d : Obj) (sd sc sa : Option Nat) : Op :=
  .build ⟨d.data, p.data, sd⟩ ⟨d.coords, p.coords, sc⟩ ⟨d.attrs, p.attrs, sa⟩

/-- structured programs in continuation form (`k` = what runs afterwards) -/
inductive Prog where
  | done
  | op (o : Op) (k : Prog)
  | ite (p q : Prog) (k : Prog)    -- run `p` or `q` (condition abstracted), then `k`
  | loop (b : Prog) (k : Prog)     -- run `b` any number of times, then `k`
  deriving Repr, Inhabited

/-- what the generator emits: a flat list per block -/
inductive Item where
  | op (o : Op)
  | ite (p q : Prog)
  | loop (b : Prog)
  deriving Repr, Inhabited

def Prog.ofItems : List Item → Prog
  | [] => .done
  | .op o :: r => .op o (Prog.ofItems r)
  | .ite p q :: r => .ite p q (Prog.ofItems r)
  | .loop b :: r => .loop b (Prog.ofItems r)

/-- number of primitive ops (for reports) -/
def Prog.size : Prog → Nat
  | .done => 0
  | .op _ k => 1 + k.size
  | .ite p q k => p.size + q.size + k.size
  | .loop b k => b.size + k.size

/-! ### concrete semantics -/

structure St where
  env : Nat → Option Nat     -- variable ↦ buffer it points into
  next : Nat                 -- next fresh buffer id
  dirty : Nat → Bool         -- buffers written so far

def St.bindFresh (s : St) (d : Nat) : St :=
  { s with env := fun v => if v = d then some s.next else s.env v, next := s.next + 1 }

def St.bindTo (s : St) (d : Nat) (b : Option Nat) : St :=
  { s with env := fun v => if v = d then b else s.env v }

def St.mark (s : St) : Option Nat → St
  | some b => { s with dirty := fun x => if x = b then true else s.dirty x }
  | none => s

/-- a resolution `sh` (shared / own memory) of one part is admissible -/
def Part.admits (p : Part) (sh : Bool) : Prop := if sh then p.mayShare = true else p.mayCopy = true

/-- fill the slot of one part: with the buffer its source pointed to in `pre` (the state the primitive
    was called in: all three sources are read before any slot is filled), or with a fresh buffer -/
def St.bindPart (s pre : St) (p : Part) (sh : Bool) : St :=
  if sh then s.bindTo p.dst (p.src.bind pre.env) else s.bindFresh p.dst

/-- one primitive step.  `maybeView` has two outcomes (the layout decides); `unknown` is havoc;
    `build` fills three slots, each shared with its source or fresh as its mode admits. -/
inductive OpStep : Op → St → St → Prop where
  | alloc (d : Nat) (s : St) : OpStep (.alloc d) s (s.bindFresh d)
  | copyOf (d src : Nat) (s : St) : OpStep (.copyOf d src) s (s.bindFresh d)
  | viewOf (d src : Nat) (s : St) : OpStep (.viewOf d src) s (s.bindTo d (s.env src))
  | maybeIsView (d src : Nat) (s : St) : OpStep (.maybeView d src) s (s.bindTo d (s.env src))
  | maybeIsCopy (d src : Nat) (s : St) : OpStep (.maybeView d src) s (s.bindFresh d)
  | write (d : Nat) (s : St) : OpStep (.write d) s (s.mark (s.env d))
  | unknown (s s' : St) : OpStep .unknown s s'
  | build (a b c : Part) (x y z : Bool) (s : St) : a.admits x → b.admits y → c.admits z →
      OpStep (.build a b c) s (((s.bindPart s a x).bindPart s b y).bindPart s c z)

/-- every run of a program: any branch, any iteration count, any layout resolution -/
inductive Exec : Prog → St → St → Prop where
  | done (s : St) : Exec .done s s
  | op {o : Op} {k : Prog} {s s1 s2 : St} : OpStep o s s1 → Exec k s1 s2 → Exec (.op o k) s s2
  | iteL {p q k : Prog} {s s1 s2 : St} : Exec p s s1 → Exec k s1 s2 → Exec (.ite p q k) s s2
  | iteR {p q k : Prog} {s s1 s2 : St} : Exec q s s1 → Exec k s1 s2 → Exec (.ite p q k) s s2
  | loopExit {b k : Prog} {s s2 : St} : Exec k s s2 → Exec (.loop b k) s s2
  | loopIter {b k : Prog} {s s1 s2 : St} : Exec b s s1 → Exec (.loop b k) s1 s2 → Exec (.loop b k) s s2

/-- the state a public function starts in: inputs are the buffers `0 … k-1`, held by the variables
    `0 … k-1`; nothing written yet -/
def init (k : Nat) : St :=
  { env := fun v => if v < k then some v else none, next := k, dirty := fun _ => false }

/-! ### abstract checker -/

/-- the variables that may point into an input buffer -/
abbrev Taint := List Nat

def Taint.has (l : Taint) (v : Nat) : Bool := l.contains v
def Taint.clear (l : Taint) (d : Nat) : Taint := l.filter (fun x => x != d)
def Taint.join (a b : Taint) : Taint := a ++ b.filter (fun x => !a.contains x)
def Taint.sub (a b : Taint) : Bool := a.all (fun x => b.contains x)

/-- may the part point into an input buffer, judged in the taint `l0` the primitive was called in -/
def Part.tainted (l0 : Taint) (p : Part) : Bool :=
  p.mayShare && (match p.src with | some x => l0.has x | none => false)

def Taint.bindPart (l l0 : Taint) (p : Part) : Taint :=
  if p.tainted l0 then p.dst :: l.clear p.dst else l.clear p.dst

def astep (l : Taint) : Op → Option Taint
  | .alloc d => some (l.clear d)
  | .copyOf d _ => some (l.clear d)
  | .viewOf d s => some (if l.has s then d :: l.clear d else l.clear d)
  | .maybeView d s => some (if l.has s then d :: l.clear d else l.clear d)   -- conservative: a view
  | .write d => if l.has d then none else some l
  | .unknown => none
  | .build a b c => some (((l.bindPart l a).bindPart l b).bindPart l c)

/-- iterate the abstract body until the taint set no longer grows (post-fixpoint), with fuel -/
def aloop (f : Taint → Option Taint) : Nat → Taint → Option Taint
  | 0, _ => none
  | fuel + 1, l =>
    match f l with
    | none => none
    | some l' => if l'.sub l then some l else aloop f fuel (l.join l')

def loopFuel : Nat := 64

def acheck : Prog → Taint → Option Taint
  | .done, l => some l
  | .op o k, l =>
    match astep l o with
    | some l1 => acheck k l1
    | none => none
  | .ite p q k, l =>
    match acheck p l, acheck q l with
    | some a, some b => acheck k (a.join b)
    | _, _ => none
  | .loop b k, l =>
    match aloop (acheck b) loopFuel l with
    | some m => acheck k m
    | none => none

/-- the taint at the start: the input variables `0 … k-1` -/
def inputs (k : Nat) : Taint := List.range k

/-- no write through a possibly-input alias on any path -/
def noInputWrite (p : Prog) (a0 : Taint) : Bool := (acheck p a0).isSome

/-- … and the returned variable cannot point into an input buffer -/
def safe (p : Prog) (a0 : Taint) (ret : Nat) : Bool :=
  match acheck p a0 with
  | some l => !l.has ret
  | none => false

/-- … and none of the returned object's slots (data, coords, attrs) can point into an input buffer -/
def safeAll (p : Prog) (a0 : Taint) (rets : List Nat) : Bool :=
  match acheck p a0 with
  | some l => rets.all (fun r => !l.has r)
  | none => false

/-! ### diagnostics for the driver (not used by the theorems) -/

/-- the same program with the writes erased: shows where the returned variable may point -/
def Prog.eraseWrites : Prog → Prog
  | .done => .done
  | .op (.write _) k => k.eraseWrites
  | .op o k => .op o k.eraseWrites
  | .ite p q k => .ite p.eraseWrites q.eraseWrites k.eraseWrites
  | .loop b k => .loop b.eraseWrites k.eraseWrites

def Prog.hasUnknown : Prog → Bool
  | .done => false
  | .op .unknown _ => true
  | .op _ k => k.hasUnknown
  | .ite p q k => p.hasUnknown || q.hasUnknown || k.hasUnknown
  | .loop b k => b.hasUnknown || k.hasUnknown

/-- inputs (by index) that may be written, judged one input at a time -/
def mayWrite (p : Prog) (k : Nat) : List Nat :=
  (List.range k).filter fun i => !(noInputWrite p [i])

/-- inputs (by index) the returned variable may point into -/
def mayReturn (p : Prog) (k : Nat) (ret : Nat) : List Nat :=
  (List.range k).filter fun i =>
    match acheck p.eraseWrites [i] with
    | some l => l.has ret
    | none => true

/-- a generated entry: one public function on the NumPy backend -/
structure Entry where
  name : String            -- "module.function"
  k : Nat                  -- number of input buffers: three per parameter that can hold an array / a raster
  params : List String     -- their names, input `i` = variable `i`: "p", … then "p.coords", … then "p.attrs", …
  ret : Obj                -- the slots of the returned object
  prog : Prog
  deriving Inhabited

end XrsVerif.BP
