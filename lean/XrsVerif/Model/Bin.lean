/-
  Model of the bin search of `classify._cpu_bin` (xrspatial/classify.py:140-175) and of the bin
  construction of `equal_interval` / `quantile`.  Mathlib-free and executable (linked into the driver).

      if np.isfinite(val):
          if val <= bins[0]:            val_bin = 0
          elif val <= bins[nbins - 1]:
              start = 0; end = nbins - 1; mid = (end + start) // 2
              while start <= end:
                  if bins[mid] < val:        start = mid + 1
                  elif val > bins[mid - 1]:  break
                  else:                      end = mid - 1
                  mid = (end + start) // 2
              val_bin = mid
      out = new_values[val_bin] if val_bin > -1 else nan

  * `mid` always equals `(end + start) // 2` at the loop head, at `break` and at exit, so the model
    recomputes it instead of carrying it.
  * the loop is fuel-indexed; `Props/C12.lean: loop_fuel_irrelevant` shows that `nbins` units of fuel
    are never exhausted before the loop stops by itself (for *any* bins, sorted or not).
  * numba wraps a negative index once (`bins[-1]` is the last bin): `getW`.
  * the comparison operators, index offsets and initialisations are *not* hard-wired: they are the fields
    of a `Shape`, and the shape the model runs with is `Gen.cpuBinShape`, regenerated from /repo's source
    by `harness/facts_classify.py` on every run.  `canonical` is the shape the theorems are proved for.
-/
namespace XrsVerif.Bin

/-- comparison operators that can occur in the source (`a op b`) -/
inductive Op | lt | le | gt | ge
  deriving Repr, DecidableEq

/-- the holes of the `_cpu_bin` search skeleton, in source order -/
structure Shape where
  /-- skeleton recognised in the source at all -/
  ok : Bool
  /-- `val <firstOp> bins[firstIdx]` -> bin `firstBin` -/
  firstOp : Op
  firstIdx : Int
  firstBin : Int
  /-- `val <lastOp> bins[nbins + lastOff]` guards the loop -/
  lastOp : Op
  lastOff : Int
  /-- `start = startInit`, `end = nbins + endOff` -/
  startInit : Int
  endOff : Int
  /-- `while start <loopOp> end` -/
  loopOp : Op
  /-- `bins[mid + rightOff] <rightOp> val` -> `start = mid + rightStep` -/
  rightOp : Op
  rightOff : Int
  rightStep : Int
  /-- `val <stopOp> bins[mid + stopOff]` -> break -/
  stopOp : Op
  stopOff : Int
  /-- else `end = mid + leftStep` -/
  leftStep : Int
  /-- result used when `val_bin > minusOne` -/
  initBin : Int
  deriving Repr, DecidableEq

/-- the skeleton as written in /repo at the pinned commit -/
def canonical : Shape := {
  ok := true
  firstOp := .le, firstIdx := 0, firstBin := 0
  lastOp := .le, lastOff := -1
  startInit := 0, endOff := -1
  loopOp := .le
  rightOp := .lt, rightOff := 0, rightStep := 1
  stopOp := .gt, stopOff := -1
  leftStep := -1
  initBin := -1 }

section generic
variable {α : Type}

/-- `a op b` from the two primitive float comparisons -/
def Op.ev (lt le : α → α → Bool) : Op → α → α → Bool
  | .lt, a, b => lt a b
  | .le, a, b => le a b
  | .gt, a, b => lt b a
  | .ge, a, b => le b a

def Op.evI : Op → Int → Int → Bool
  | .lt, a, b => decide (a < b)
  | .le, a, b => decide (a ≤ b)
  | .gt, a, b => decide (b < a)
  | .ge, a, b => decide (b ≤ a)

/-- numba index semantics (`wraparound`): a negative index is taken from the end, once -/
def getW (d : α) (l : List α) (i : Int) : α :=
  let j := if i < 0 then i + l.length else i
  if 0 ≤ j then l.getD j.toNat d else d

/-- the `while` loop on the two tests it evaluates (`right i`: go right of `i`; `stop i`: break) -/
def loopS (sh : Shape) (right stop : Int → Bool) : Nat → Int → Int → Int
  | 0, start, stp => (stp + start) / 2
  | fuel+1, start, stp =>
    let mid := (stp + start) / 2
    if sh.loopOp.evI start stp then
      if right (mid + sh.rightOff) then loopS sh right stop fuel (mid + sh.rightStep) stp
      else if stop (mid + sh.stopOff) then mid
      else loopS sh right stop fuel start (mid + sh.leftStep)
    else mid

/-- the whole search for one finite value; `-1` = no bin -/
def searchS (sh : Shape) (lt le : α → α → Bool) (d : α) (bins : List α) (val : α) : Int :=
  let n : Int := bins.length
  if sh.firstOp.ev lt le val (getW d bins sh.firstIdx) then sh.firstBin
  else if sh.lastOp.ev lt le val (getW d bins (n + sh.lastOff)) then
    loopS sh (fun i => sh.rightOp.ev lt le (getW d bins i) val)
             (fun i => sh.stopOp.ev lt le val (getW d bins i))
          bins.length sh.startInit (n + sh.endOff)
  else sh.initBin

/-! the same, specialised to the canonical skeleton (what the theorems talk about) -/

/-- `below i` is `bins[i] < val` -/
def loop (below : Int → Bool) : Nat → Int → Int → Int
  | 0, start, stp => (stp + start) / 2
  | fuel+1, start, stp =>
    let mid := (stp + start) / 2
    if start ≤ stp then
      if below mid then loop below fuel (mid + 1) stp
      else if below (mid - 1) then mid
      else loop below fuel start (mid - 1)
    else mid

/-- `atMost i` is `val <= bins[i]` -/
def searchP (below atMost : Int → Bool) (n : Nat) : Int :=
  if atMost 0 then 0
  else if atMost ((n : Int) - 1) then loop below n 0 ((n : Int) - 1)
  else -1

def search (lt le : α → α → Bool) (d : α) (bins : List α) (val : α) : Int :=
  searchP (fun i => lt (getW d bins i) val) (fun i => le val (getW d bins i)) bins.length

/-- one cell of `_cpu_bin` over any number type: the two comparisons, the finiteness test and the NaN value
    are parameters (`Fl.lt`, `Fl.le`, `Fl.isfinite`, `Fl.nan` for the generated program `Gen.IL.cpuBin`,
    `Ext.lt`, `Ext.le`, `Ext.isFinite`, `.nan` for `cell` below) -/
def cellG (lt le : α → α → Bool) (isfin : α → Bool) (d : α) (bins newv : List α) (v : α) : α :=
  if isfin v then
    let r := search lt le d bins v
    if r > -1 then getW d newv r else d
  else d

end generic

/-- how `_run_numpy_bin` re-binds an operand before the search: not at all / `np.asarray(x)` (`none`),
    to a fixed dtype (`np.asarray(x, dtype=np.float32)`, `x.astype('float32')`), to the raster's dtype
    (`dtype=data.dtype`), or by an expression the fact extractor does not understand -/
inductive Cast where
  | none | dtype (name : String) | dataDtype | other (src : String)
  deriving DecidableEq, Repr, Inhabited

structure BinCasts where
  data : Cast
  bins : Cast
  newValues : Cast
  /-- apart from those re-bindings the function is `return _cpu_bin(data, bins, new_values)` -/
  callOk : Bool
  deriving DecidableEq, Repr, Inhabited

/-! ### extended values: what a raster cell / a bin can hold -/

inductive Ext (α : Type) where
  | nan | ninf | fin (a : α) | pinf
  deriving Repr, DecidableEq, Inhabited

section ext
variable {α : Type} [LT α] [DecidableLT α] [LE α] [DecidableLE α]

/-- IEEE `<`: false as soon as one side is NaN -/
def Ext.lt : Ext α → Ext α → Bool
  | .nan, _ => false
  | _, .nan => false
  | .ninf, .ninf => false
  | .ninf, _ => true
  | _, .ninf => false
  | .pinf, _ => false
  | .fin _, .pinf => true
  | .fin a, .fin b => decide (a < b)

/-- IEEE `<=` -/
def Ext.le : Ext α → Ext α → Bool
  | .nan, _ => false
  | _, .nan => false
  | .ninf, _ => true
  | _, .pinf => true
  | .pinf, _ => false
  | .fin _, .ninf => false
  | .fin a, .fin b => decide (a ≤ b)

omit [LT α] [DecidableLT α] [LE α] [DecidableLE α] in
def Ext.isFinite : Ext α → Bool
  | .fin _ => true
  | _ => false

omit [LT α] [DecidableLT α] [LE α] [DecidableLE α] in
def Ext.isNaN : Ext α → Bool
  | .nan => true
  | _ => false

/-- one cell of `_cpu_bin` under a given skeleton -/
def cellS (sh : Shape) (bins newv : List (Ext α)) (v : Ext α) : Ext α :=
  if v.isFinite then
    let r := searchS sh Ext.lt Ext.le .nan bins v
    if r > -1 then getW .nan newv r else .nan
  else .nan

/-- one cell of `_cpu_bin` (canonical skeleton) -/
def cell (bins newv : List (Ext α)) (v : Ext α) : Ext α :=
  if v.isFinite then
    let r := search Ext.lt Ext.le .nan bins v
    if r > -1 then getW .nan newv r else .nan
  else .nan

/-! #### `_run_numpy_bin`: what happens to the operands before `_cpu_bin` compares them.
    `_cpu_bin` compares `val` with `bins[i]` as they arrive (numba converts both to their common type, which
    holds every float32 / float64 / int32 value and every int64 up to 2^53 exactly), so the comparison is the
    comparison of the numbers themselves *unless the wrapper has rounded an operand first*.  The wrapper's
    re-bindings are read from the source (Gen/ClassifyFacts.lean: `runBinCasts`). -/

omit [LT α] [DecidableLT α] [LE α] [DecidableLE α] in
/-- the effect of a cast on a value: `rnd t` is the conversion into dtype `t`, `ddt` the raster's dtype; an
    expression that was not understood is the unknown function `rnd "?"` -/
def Cast.apply {β : Type} (rnd : String → β → β) (ddt : String) : Cast → β → β
  | .none, x => x
  | .dtype t, x => rnd t x
  | .dataDtype, x => rnd ddt x
  | .other _, x => rnd "?" x

/-- one cell of `_run_numpy_bin(data, bins, new_values)`: the casts found in the source, then `_cpu_bin` -/
def runNumpyBin (sh : Shape) (c : BinCasts) (rnd : String → Ext α → Ext α) (ddt : String)
    (bins newv : List (Ext α)) (v : Ext α) : Ext α :=
  cellS sh (bins.map (c.bins.apply rnd ddt)) (newv.map (c.newValues.apply rnd ddt)) (c.data.apply rnd ddt v)

/-- `np.unique` on a list without NaN: ascending, duplicates dropped (insertion) -/
def insertU (x : α) : List α → List α
  | [] => [x]
  | y :: ys => if x < y then x :: y :: ys else if y < x then y :: insertU x ys else y :: ys

def uniq (l : List α) : List α := l.foldr insertU []

end ext

/-! ### bins of the data-driven classifiers (exact rational arithmetic) -/

/-- `np.arange(k)` as new values -/
def classIds (k : Nat) : List (Ext Rat) := (List.range k).map fun (i : Nat) => .fin (i : Rat)

def ceilQ (q : Rat) : Int := -((-q).floor)

/-- `np.arange(start, stop, step)`, `step > 0`: `ceil((stop - start) / step)` elements `start + i * step` -/
def arange (start stop step : Rat) : List Rat :=
  (List.range (ceilQ ((stop - start) / step)).toNat).map fun (i : Nat) => start + (i : Rat) * step

/-- `l[-1] = x` -/
def setLast {α : Type} (l : List α) (x : α) : List α :=
  match l with
  | [] => []
  | _ => l.dropLast ++ [x]

/-- `equal_interval`: `width = (max - min) / k; cuts = arange(min + width, max + width, width)`,
    overshoot trimmed to `k`, `cuts[-1] = max`.  Returns the bins and `l_cuts` (length before trimming). -/
def equalIntervalCuts (mn mx : Rat) (k : Nat) : List Rat × Nat :=
  let w := (mx - mn) / (k : Rat)
  let cuts := arange (mn + w) (mx + w) w
  let cuts' := if cuts.length > k then cuts.take k else cuts
  (setLast cuts' mx, cuts.length)

def finiteVals (cells : List (Ext Rat)) : List Rat :=
  cells.filterMap fun | .fin a => some a | _ => none

def maxStep (m : Option Rat) (x : Rat) : Option Rat :=
  match m with | none => some x | some y => some (if y < x then x else y)
def minStep (m : Option Rat) (x : Rat) : Option Rat :=
  match m with | none => some x | some y => some (if x < y then x else y)
/-- `np.max` / `np.nanmax` of the finite cells (`none`: there is none) -/
def maxQ (l : List Rat) : Option Rat := l.foldl maxStep none
def minQ (l : List Rat) : Option Rat := l.foldl minStep none

inductive Res where
  | ok (classes : List (Ext Rat)) (bins : List Rat)
  | err (kind : String)
  deriving DecidableEq, Repr

/-- `equal_interval` on the cells of a raster -/
def equalInterval (sh : Shape) (cells : List (Ext Rat)) (k : Nat) : Res :=
  match minQ (finiteVals cells), maxQ (finiteVals cells) with
  | some mn, some mx =>
    if k = 0 then .err "ZeroDivisionError"
    else if mn = mx then .err "ValueError"
    else
      let (bins, l) := equalIntervalCuts mn mx k
      .ok (cells.map (cellS sh (bins.map .fin) (classIds l))) bins
  | _, _ => .err "ValueError"

/-- `quantile`: `qs` are the percentile values numpy returned (external); `q = unique(qs)`,
    `k := min k len(q)`, classes `arange(k)` -/
def quantile (sh : Shape) (cells : List (Ext Rat)) (qs : List Rat) (k : Nat) : Res :=
  let bins := uniq qs
  let k' := if bins.length < k then bins.length else k
  .ok (cells.map (cellS sh (bins.map .fin) (classIds k'))) bins

end XrsVerif.Bin
