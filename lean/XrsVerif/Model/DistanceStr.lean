import XrsVerif.Gen.MetricFacts
/-
  Hand model of `convolution._get_distance` / `calc_cellsize` (C19), Mathlib-free and executable.

  * `matchNum` / `scan` model `re.split(r'(-?\d*\.?\d+)', s)`: leftmost, greedy-with-backtracking
    matching of `-?\d*\.?\d+` and the alternating list text, number, text, ..., text that a split
    with one capturing group returns; `splits` drops the empty pieces.
  * `pyFloatTok` models `float(piece)`: a matched number has its decimal value; an unmatched piece
    contains no digit, so `float` accepts it only when it is `inf` / `infinity` / `nan` (any case,
    optional sign, surrounding white space).
  * the numbers of pieces accepted, the rejection comparison, the default unit and the unit table are
    the *generated* facts of Gen/MetricFacts.lean.

  Domain: ASCII strings (`\d`, `str.lower`, `float` are modelled for ASCII only; Python's `\d` and
  `float` also accept other Unicode decimal digits).  Values are rationals; every float operation of
  the real code (`float(number)`, the float constants of `UNITS`, `d * UNITS[unit]`) goes through the
  parameter `rnd : Rat → Rat`: the driver runs the model with IEEE binary64 rounding (`roundF64`), the
  theorems hold for every `rnd` (exact arithmetic is `rnd = id`); overflow to inf is not represented.
-/
namespace XrsVerif.DistStr

def isDig (c : Char) : Bool := c.isDigit

/-- the digits after a leading `.` (empty when there is no `.` or no digit after it) -/
def fracDigits : List Char → List Char
  | c :: t => if c = '.' then t.takeWhile isDig else []
  | [] => []

/-- `\d*\.?\d+` at the head of `s`: `(matched, rest)`.
    Greedy `\d*` takes the whole digit run `d1`; if `.` and at least one digit follow they are taken
    with all following digits; otherwise the engine backtracks to `d1` alone (needs `d1 ≠ []`). -/
def matchBody (s : List Char) : Option (List Char × List Char) :=
  let d1 := s.takeWhile isDig
  let s2 := s.dropWhile isDig
  let d2 := fracDigits s2
  if d2 ≠ [] then some (d1 ++ '.' :: d2, s2.tail.dropWhile isDig)
  else if d1 ≠ [] then some (d1, s2) else none

/-- `-?\d*\.?\d+` at the head of `s` (when the attempt with `-` fails the retry without it fails
    too, because `-` is neither a digit nor `.`) -/
def matchNum : List Char → Option (List Char × List Char)
  | [] => none
  | c :: t =>
    if c = '-' then (matchBody t).map (fun mr => ('-' :: mr.1, mr.2)) else matchBody (c :: t)

inductive Tok where
  | txt (s : List Char)
  | num (s : List Char)
  deriving Repr, DecidableEq

def Tok.chars : Tok → List Char
  | .txt s => s
  | .num s => s

/-- `re.split` with one capturing group: text, number, text, ..., text (fuel = remaining length + 1) -/
def scan : Nat → List Char → List Char → List Tok
  | 0, _, acc => [.txt acc.reverse]
  | _ + 1, [], acc => [.txt acc.reverse]
  | n + 1, c :: t, acc =>
    match matchNum (c :: t) with
    | some (m, rest) => .txt acc.reverse :: .num m :: scan n rest []
    | none => scan n t (c :: acc)

def reSplit (s : List Char) : List Tok := scan (s.length + 1) s []

/-- `[x for x in re.split(...) if x != '']` -/
def splits (s : List Char) : List Tok := (reSplit s).filter (fun t => !t.chars.isEmpty)

/-! ### `float(piece)` -/

inductive PyFloat where
  | nan | pinf | ninf
  | fin (q : Rat)
  deriving Repr, DecidableEq

def natOfDigits (ds : List Char) : Nat := ds.foldl (fun a c => 10 * a + (c.toNat - 48)) 0

/-- decimal value of `D*(.D+)?` -/
def bodyVal (b : List Char) : Rat :=
  let d1 := b.takeWhile isDig
  let d2 := fracDigits (b.dropWhile isDig)
  ((natOfDigits (d1 ++ d2) : Nat) : Rat) / ((10 ^ d2.length : Nat) : Rat)

/-- decimal value of a matched token `-?D*(.D+)?` -/
def decVal : List Char → Rat
  | [] => 0
  | c :: t => if c = '-' then - bodyVal t else bodyVal (c :: t)

/-- white space stripped by `float` -/
def isPySpace (c : Char) : Bool :=
  c == ' ' || c == '\t' || c == '\n' || c == '\r' || c.toNat == 11 || c.toNat == 12
    || (28 ≤ c.toNat && c.toNat ≤ 31)

def strip (s : List Char) : List Char :=
  ((s.dropWhile isPySpace).reverse.dropWhile isPySpace).reverse

def lower (s : List Char) : List Char := s.map Char.toLower

/-- `float` of a piece without digits: only the IEEE specials are accepted -/
def specialFloat (t : List Char) : Option PyFloat :=
  let s := lower (strip t)
  let neg := match s with | '-' :: _ => true | _ => false
  let b := match s with | '-' :: r => r | '+' :: r => r | _ => s
  if b = ['i', 'n', 'f'] ∨ b = ['i', 'n', 'f', 'i', 'n', 'i', 't', 'y'] then
    some (if neg then .ninf else .pinf)
  else if b = ['n', 'a', 'n'] then some .nan
  else none

/-- `float(piece)`; `rnd` rounds the decimal value to a float -/
def pyFloatTok (rnd : Rat → Rat) : Tok → Option PyFloat
  | .num m => some (.fin (rnd (decVal m)))
  | .txt t => specialFloat t

/-- IEEE comparison `v op b` of a Python float with a finite bound -/
def cmpPF (op : CmpOp) (v : PyFloat) (b : Rat) : Bool :=
  match v with
  | .nan => op == .ne
  | .pinf => op == .gt || op == .ge || op == .ne
  | .ninf => op == .lt || op == .le || op == .ne
  | .fin q =>
    match op with
    | .lt => decide (q < b) | .le => decide (q ≤ b) | .eq => decide (q = b)
    | .ne => decide (q ≠ b) | .gt => decide (b < q) | .ge => decide (b ≤ q)

/-- `d * UNITS[unit]`: the table constant `f` is itself a float (`rnd f`), the product is rounded -/
def mulFactor (rnd : Rat → Rat) (v : PyFloat) (f : Rat) : PyFloat :=
  match v with
  | .nan => .nan
  | .fin q => .fin (rnd (q * rnd f))
  | .pinf => if 0 < f then .pinf else if f < 0 then .ninf else .nan
  | .ninf => if 0 < f then .ninf else if f < 0 then .pinf else .nan

/-- `UNITS[u]` (exact key match) -/
def lookupUnit (u : List Char) : Option Rat :=
  (Gen.units.find? (fun e => e.1.toList == u)).map (fun e => ratOf e.2.1 e.2.2)

/-- `unit.lower().replace(' ', '')` -/
def normUnit (u : List Char) : List Char := (lower u).filter (fun c => c != ' ')

inductive Dist where
  | err (stage : String)        -- always a ValueError; the stage names which test raised
  | val (v : PyFloat)
  deriving Repr, DecidableEq

def rejected (v : PyFloat) : Bool :=
  cmpPF Gen.distance_reject.1 v (ratOf Gen.distance_reject.2.1 Gen.distance_reject.2.2)

/-- `_get_distance(s)` -/
def getDistance (rnd : Rat → Rat) (s : List Char) : Dist :=
  let sp := splits s
  if !(Gen.distance_allowed_lens.contains sp.length) then .err "invalid" else
  let unit := if sp.length = Gen.distance_unit_guard then (sp.getD Gen.distance_unit_index (.txt [])).chars
              else Gen.default_unit.toList
  match pyFloatTok rnd (sp.getD Gen.distance_number_index (.txt [])) with
  | none => .err "numeric"
  | some v =>
    if rejected v then .err "positive" else
    match lookupUnit (normUnit unit) with
    | none => .err "unit"
    | some f => .val (mulFactor rnd v f)

/-! ### `calc_cellsize`: resolution (rx, ry) and the optional `unit` attribute -/

def absIf (b : Bool) (q : Rat) : Rat := if b then (if q < 0 then -q else q) else q

/-- `(to_meters(rx, unit), abs(to_meters(ry, unit)))`; `none` = KeyError (the attribute is used as is) -/
def calcCellsize (rnd : Rat → Rat) (unit : Option (List Char)) (rx ry : Rat) : Option (Rat × Rat) :=
  match lookupUnit (unit.getD Gen.default_unit.toList) with
  | none => none
  | some f => some (absIf (Gen.cellsize_abs.getD 0 false) (rnd (rx * rnd f)),
                    absIf (Gen.cellsize_abs.getD 1 false) (rnd (ry * rnd f)))

end XrsVerif.DistStr
