/-
  Model/Effects -- the library as a state machine over its *shared* state (C11).

  Shared state of one Python process running xrspatial:
    * the global NumPy RNG                                   (`Cell.rng`)
    * module-level mutable objects (dicts / lists / arrays)  (`Cell.table "module.NAME"`)
    * mutable default-argument objects                       (`Cell.dflt "module.func.param"`)
    * module-level names read by compiled code or rebound    (`Cell.glob "module.NAME"`)
    * the objects the *caller* passed in and still holds afterwards -- it may pass them again, or derive
      later arguments from them (`base[::2, ::2]`, `assign_coords`: xarray carries the attrs along)
                                                             (`Cell.param "attrs" | "coords" | "name" |
                                                               "binding" | "cells" | "object"`)
    * one dispatcher per jitted function with numba's compile-once semantics: the first call (per
      type signature) freezes the values of the captured globals / closure variables; later calls
      through the *same* dispatcher object see the frozen values.  A dispatcher created inside the
      call (proximity's `_process_numpy` closure) is fresh every time.

  A public call is a step `Lib × Args → Lib × Result` built from an *effect summary*: a little
  program (`Prog`) listing, in source order and with the conditional / loop structure, which
  shared cells it overwrites (`seed`), reads, reads-and-advances (`draw`), mutates, and which
  dispatchers it calls with which captured variables.  Everything else the function does is an
  arbitrary *pure* function of its arguments and of the values observed so far (`Sem`): the model
  is an abstraction -- it knows nothing about what proximity computes, only what can leak between
  calls.  The summaries are GENERATED from /repo's current source (harness/facts_effects.py ->
  Gen/Effects.lean).

  Core Lean only (linked into the driver).
-/
namespace XrsVerif.Effects

/-- a piece of state shared between calls -/
inductive Cell where
  | rng
  | table (name : String)
  | dflt (name : String)
  | glob (name : String)
  /-- state hung on an argument object that the caller keeps after the call: its `attrs` dict, its
      coordinates, its `name`, the *binding* of its array (`x.data = x.data.rechunk(..)`), its cells,
      any other attribute.  One cell per aspect: all argument objects of all calls share it (derived
      rasters share their parent's attrs), which can only make the checkers reject more. -/
  | param (aspect : String)
  deriving DecidableEq, Repr, Inhabited

def Cell.callerOwned : Cell → Bool
  | .param _ => true
  | _ => false

/-- a free variable of a jitted function -/
inductive Capture where
  /-- closure variable computed from the arguments of the enclosing call -/
  | arg (name : String)
  /-- module-level global (numba freezes its value at compile time) -/
  | cell (c : Cell)
  deriving DecidableEq, Repr, Inhabited

/-- a numba dispatcher -/
structure Disp where
  name : String
  /-- the dispatcher object is created afresh by every call (jit applied to a nested function) -/
  fresh : Bool
  /-- `jit(cache=True)`: compiled code is reused, even across processes -/
  cache : Bool
  caps : List Capture
  deriving DecidableEq, Repr, Inhabited

/-- compiled code may be reused by a later call -/
def Disp.reuses (d : Disp) : Bool := !d.fresh || d.cache

inductive Atom where
  /-- overwrite the cell with a value computed from the arguments (`np.random.seed(seed + i)`) -/
  | seed (c : Cell)
  /-- the result may depend on the current content of the cell -/
  | read (c : Cell)
  /-- read the cell and advance it (`np.random.permutation`, `np.random.choice`) -/
  | draw (c : Cell)
  /-- change the cell depending on arguments and old content (`table[k] = v`, `default.append`) -/
  | mutate (c : Cell)
  /-- call through a dispatcher: the compiled code sees its captured variables -/
  | jit (d : Disp)
  deriving DecidableEq, Repr, Inhabited

/-- effect program: atoms in source order; `block` = the body of an `if` / `for` / `while` / `try`
    (executed 0..n times, n decided by the arguments and by what was observed so far) -/
inductive Prog where
  | nil
  | op (a : Atom) (rest : Prog)
  | block (body : Prog) (rest : Prog)
  deriving Repr, Inhabited, DecidableEq

/-- generated per function of /repo (public functions have their helpers inlined in call order) -/
structure Summary where
  name : String
  isPublic : Bool
  prog : Prog
  /-- aspects of the arguments the code may read ("seed", "agg.shape", "agg.values", ...) -/
  deps : List String
  /-- functions handed to dask (`map_blocks`, `map_overlap`, `delayed`) -/
  tasks : List String
  /-- numba functions reached -/
  kernels : List String
  deriving Repr, Inhabited, DecidableEq

/-- jit facts of one numba (CPU) function -/
structure KernelFacts where
  name : String
  parallel : Bool
  prange : Bool
  /-- a `prange` body writes something that is not its own cell: a store into an array allocated
      outside the loop at an index that is not the loop variable, an in-place method on such an
      array, or a scalar carried across iterations (a reduction) -/
  racy : Bool
  cache : Bool
  fastmath : Bool
  deriving Repr, Inhabited, DecidableEq

/-! ## semantics -/

/-- the library state between calls -/
structure Lib (V : Type) where
  cells : Cell → V
  /-- frozen captured values per dispatcher and type signature -/
  disp : Disp → Nat → Option (List V)

/-- the state during a call: `trace` = everything the call has observed of the shared state -/
structure Env (V : Type) where
  cells : Cell → V
  disp : Disp → Nat → Option (List V)
  trace : List V

/-- the pure part of a call: arbitrary functions of the arguments and of the observations so far -/
structure Sem (A V R : Type) where
  seedv : A → List V → V
  adv : V → V
  mutv : A → List V → V → V
  capArg : A → String → V
  /-- type signature of the call at dispatcher `d` (numba specialises per argument types) -/
  sig : A → Disp → Nat
  /-- how many times a block runs -/
  iters : A → List V → Nat
  out : A → List V → R

def upd {V} (f : Cell → V) (c : Cell) (v : V) : Cell → V := fun k => if k = c then v else f k

def updDisp {V} (f : Disp → Nat → Option (List V)) (d : Disp) (k : Nat) (vs : List V) :
    Disp → Nat → Option (List V) :=
  fun d' k' => if d' = d ∧ k' = k then some vs else f d' k'

def capVal {V} (argv : String → V) (cells : Cell → V) : Capture → V
  | .arg n => argv n
  | .cell c => cells c

def execAtom {A V R} (sem : Sem A V R) (args : A) (a : Atom) (e : Env V) : Env V :=
  match a with
  | .seed c => { e with cells := upd e.cells c (sem.seedv args e.trace) }
  | .read c => { e with trace := e.trace ++ [e.cells c] }
  | .draw c => { e with trace := e.trace ++ [e.cells c], cells := upd e.cells c (sem.adv (e.cells c)) }
  | .mutate c => { e with cells := upd e.cells c (sem.mutv args e.trace (e.cells c)) }
  | .jit d =>
    let cur := d.caps.map (capVal (sem.capArg args) e.cells)
    if d.reuses then
      match e.disp d (sem.sig args d) with
      | some frozen => { e with trace := e.trace ++ frozen }
      | none => { e with trace := e.trace ++ cur, disp := updDisp e.disp d (sem.sig args d) cur }
    else { e with trace := e.trace ++ cur }

def iter {α} (f : α → α) : Nat → α → α
  | 0, x => x
  | n + 1, x => iter f n (f x)

def exec {A V R} (sem : Sem A V R) (args : A) : Prog → Env V → Env V
  | .nil, e => e
  | .op a rest, e => exec sem args rest (execAtom sem args a e)
  | .block body rest, e => exec sem args rest (iter (exec sem args body) (sem.iters args e.trace) e)

/-- one public call -/
structure Call (A V R : Type) where
  prog : Prog
  args : A
  sem : Sem A V R

def step {A V R} (s : Lib V) (c : Call A V R) : Lib V × R :=
  let e := exec c.sem c.args c.prog ⟨s.cells, s.disp, []⟩
  (⟨e.cells, e.disp⟩, c.sem.out c.args e.trace)

def runHist {A V R} (s : Lib V) (h : List (Call A V R)) : Lib V := h.foldl (fun s c => (step s c).1) s

/-- a fresh interpreter: nothing compiled yet -/
def Lib.fresh {V} (cells : Cell → V) : Lib V := ⟨cells, fun _ _ => none⟩

/-! ## the checkers (decidable, run on the generated summaries) -/

def capOk (W S : List Cell) (perCall : Bool) : Capture → Bool
  | .arg _ => perCall
  | .cell c => !W.contains c || (perCall && S.contains c)

/-- `W` = the volatile cells (every cell some call of the library may write); `S` = the cells this
    call has already overwritten with a function of its own arguments -/
def atomOk (W S : List Cell) : Atom → Bool
  | .seed c => W.contains c
  | .read c => !W.contains c || S.contains c
  | .draw c => W.contains c && S.contains c
  | .mutate c => W.contains c
  | .jit d => d.caps.all (capOk W S (!d.reuses))

def seeds (S : List Cell) : Atom → List Cell
  | .seed c => c :: S
  | _ => S

/-- reads shared state only after overwriting it in the same call; compiled code that may be reused
    captures only cells nobody writes; writes stay inside `W` -/
def noStale (W : List Cell) : List Cell → Prog → Bool
  | _, .nil => true
  | S, .op a rest => atomOk W S a && noStale W (seeds S a) rest
  | S, .block body rest => noStale W S body && noStale W S rest

def atomConf (W : List Cell) : Atom → Bool
  | .seed c => W.contains c
  | .draw c => W.contains c
  | .mutate c => W.contains c
  | _ => true

/-- writes only volatile cells (what a *perturber* such as `bump` must satisfy) -/
def confined (W : List Cell) : Prog → Bool
  | .nil => true
  | .op a rest => atomConf W a && confined W rest
  | .block body rest => confined W body && confined W rest

def atomWrites : Atom → List Cell
  | .seed c => [c]
  | .draw c => [c]
  | .mutate c => [c]
  | _ => []

def Prog.writes : Prog → List Cell
  | .nil => []
  | .op a rest => atomWrites a ++ rest.writes
  | .block body rest => body.writes ++ rest.writes

/-- cells whose content on entry may influence the result (read / drawn / captured before a dominating seed) -/
def atomExposed (S : List Cell) : Atom → List Cell
  | .read c => if S.contains c then [] else [c]
  | .draw c => if S.contains c then [] else [c]
  | .jit d => d.caps.filterMap fun
      | .cell c => if S.contains c ∧ !d.reuses then none else some c
      | .arg _ => none
  | _ => []

def exposedFrom : List Cell → Prog → List Cell
  | _, .nil => []
  | S, .op a rest => atomExposed S a ++ exposedFrom (seeds S a) rest
  | S, .block body rest => exposedFrom S body ++ exposedFrom S rest

def Prog.exposed (p : Prog) : List Cell := exposedFrom [] p

def Prog.disps : Prog → List Disp
  | .nil => []
  | .op (.jit d) rest => d :: rest.disps
  | .op _ rest => rest.disps
  | .block body rest => body.disps ++ rest.disps

def restrict {V} [Inhabited V] (deps : List String) (args : String → V) : String → V :=
  fun k => if deps.contains k then args k else default

/-- the call made by applying a summarised function to named argument aspects: the code can only
    look at the aspects listed in `deps` -/
def Summary.call {V R} [Inhabited V] (σ : Summary) (sem : Sem (String → V) V R) (args : String → V) :
    Call (String → V) V R :=
  { prog := σ.prog, args := restrict σ.deps args, sem := sem }

/-! ## kernels: the outer loop of a numba function -/

structure Loop (β ι : Type) where
  idxs : List ι
  body : β → ι → β

/-- With `parallel=False` (`prange` is then `range`) or without `prange` the iterations run in source
    order, whatever the number of threads.  With `parallel=True` the `threads` workers take the
    iterations in an order `sched threads idxs` about which nothing is known (iterations are taken
    as atomic here; torn writes are outside the model). -/
def Loop.run {β ι} (kf : KernelFacts) (threads : Nat) (sched : Nat → List ι → List ι) (l : Loop β ι)
    (b : β) : β :=
  (if kf.parallel && kf.prange then sched threads l.idxs else l.idxs).foldl l.body b

/-- every iteration writes only its own cell, from inputs no iteration writes -/
def Loop.ownCell {ι V} [DecidableEq ι] (idxs : List ι) (g : ι → V) : Loop (ι → V) ι :=
  { idxs := idxs, body := fun b i => fun k => if k = i then g i else b k }

def threadSafe (kf : KernelFacts) : Bool := !(kf.parallel && kf.prange) || !kf.racy

end XrsVerif.Effects
