/-!
  Metadata model (C10): what the raster returned by a public function carries (coords, dims, attrs)
  as a function of what the input rasters carry, read off the `DataArray(out, coords=…, dims=…,
  attrs=…)` expression the function returns (generated: `Gen.meta_<module>_<function>`), and the
  hand-written contract table with the documented exceptions.  No Mathlib.
-/
namespace XrsVerif.Meta

/-- source of one constructor argument -/
inductive Src where
  | absent                                   -- keyword not given: xarray's default
  | input (p : String)                       -- `p.coords` / `p.dims` / `p.attrs` of the parameter `p`
  | inputPlus (p : String) (keys : List String)   -- deep copy of `p.attrs` with the given keys (re)assigned
  | param (p : String)                       -- a plain parameter (`name=name`)
  | other (txt : String)                     -- anything else (source text)
  deriving Repr, DecidableEq, Inhabited

/-- what a `return` of the public function produces -/
inductive Ret where
  | ctor (coords dims attrs name : Src)      -- `DataArray(out, coords=…, dims=…, attrs=…, name=…)`
  | window (p : String)                      -- `p[top:bottom, left:right]`
  | none                                     -- no value
  | other (txt : String)
  deriving Repr, DecidableEq, Inhabited

structure FuncMeta where
  name : String                 -- "module.function"
  rebinds : List String         -- parameters whose `.data` / `.values` the function re-assigns
  returns : List Ret            -- one entry per reachable `return`
  deriving Repr, Inhabited

/-- what a raster carries besides its cells; `α` = opaque metadata values -/
structure RasterMeta (α : Type) where
  coords : α
  dims : α
  attrs : List (String × α)

/-- the attributes a deep copy with `keys` reassigned has in common with the original -/
def attrsOutside (keys : List String) {α : Type} (a : List (String × α)) : List (String × α) :=
  a.filter fun kv => !keys.contains kv.1

/-- semantics of the returned constructor: the part of the output's metadata that is *determined* by
    the inputs (`none` = not determined by an input) -/
structure OutMeta (α : Type) where
  coords : Option α
  dims : Option α
  /-- `(attributes shared with the input, keys that may differ)` -/
  attrs : Option (List (String × α) × List String)

def evalSimple {α : Type} (inp : String → RasterMeta α) (sel : RasterMeta α → α) : Src → Option α
  | .input p => some (sel (inp p))
  | _ => none

def evalAttrs {α : Type} (inp : String → RasterMeta α) : Src → Option (List (String × α) × List String)
  | .input p => some ((inp p).attrs, [])
  | .inputPlus p keys => some (attrsOutside keys (inp p).attrs, keys)
  | _ => none

def outMeta {α : Type} (inp : String → RasterMeta α) : Ret → OutMeta α
  | .ctor c d a _ => { coords := evalSimple inp (·.coords) c, dims := evalSimple inp (·.dims) d,
                       attrs := evalAttrs inp a }
  | _ => { coords := none, dims := none, attrs := none }

/-! ### contracts -/

inductive MetaContract where
  | identity (p : String) (extraAttrs : List String)   -- coords, dims, attrs of `p` (attrs may gain `extraAttrs`)
  | window (p : String)                                 -- a window of `p` (trim, crop)
  | own                                                 -- defines its own shape / coords / attrs
  | nothing                                             -- returns no raster
  deriving Repr, DecidableEq, Inhabited

structure Contract where
  shape : MetaContract
  /-- parameters whose array the function may replace by contract (never written in place) -/
  mayRebind : List String := []
  /-- the output may share memory with an input by contract -/
  retMayAlias : Bool := false
  deriving Repr, Inhabited

def own : Contract := { shape := .own }

/-- documented exceptions; every function *not* listed gets the strict default: identity of its first
    array parameter, no rebinding, fresh output -/
def exceptions : List (String × Contract) := [
  -- zonal.apply updates `values` in place by contract (it re-assigns `values.values`), returns nothing
  ("zonal.apply", { shape := .nothing, mayRebind := ["values"] }),
  -- trim / crop return windows (views) of their input
  ("zonal.trim", { shape := .window "raster", retMayAlias := true }),
  ("zonal.crop", { shape := .window "values", retMayAlias := true }),
  -- viewshed may widen the input's dtype without changing a value
  ("viewshed.viewshed", { shape := .identity "raster" [], mayRebind := ["raster"] }),
  -- hotspots documents the extra `unit` attribute
  ("focal.hotspots", { shape := .identity "raster" ["unit"] }),
  -- generators, focal_stats, true_color, polygonize define their own shape / coords
  ("perlin.perlin", own), ("terrain.generate_terrain", own), ("bump.bump", own),
  ("focal.focal_stats", own), ("multispectral.true_color", own), ("analytics.summarize_terrain", own),
  ("polygonize.polygonize", own),
  -- local.* build a fresh 2-D raster from a Dataset of layers
  ("local.cell_stats", own), ("local.combine", own), ("local.lesser_frequency", own),
  ("local.equal_frequency", own), ("local.greater_frequency", own), ("local.lowest_position", own),
  ("local.highest_position", own), ("local.popularity", own), ("local.rank", own),
  -- tables
  ("zonal.stats", own), ("zonal.crosstab", own),
  -- array-level / scalar helpers (no DataArray result); custom_kernel validates and returns its argument
  ("convolution.convolve_2d", own), ("convolution.calc_cellsize", own),
  ("convolution.custom_kernel", { shape := .own, retMayAlias := true }),
  ("utils.get_xy_range", own), ("utils.calc_res", own),
  ("utils.get_dataarray_resolution", { shape := .own, retMayAlias := true })]

def contractOf (name : String) (params : List String) : Contract :=
  match exceptions.find? (·.1 == name) with
  | some (_, c) => c
  | none => { shape := .identity (params.headD "") [] }

/-- does one `return` conform to the metadata contract -/
def retConforms : MetaContract → Ret → Bool
  | .identity p extra, .ctor c d a _ =>
      c == .input p && d == .input p &&
      (match a with
       | .input q => q == p
       | .inputPlus q keys => q == p && keys.all (extra.contains ·)
       | _ => false)
  | .identity _ _, _ => false
  | .window p, .window q => p == q
  | .window _, _ => false
  | .own, _ => true
  | .nothing, .none => true
  | .nothing, _ => false

def conforms (c : Contract) (f : FuncMeta) : Bool :=
  f.returns.all (retConforms c.shape) && f.rebinds.all (c.mayRebind.contains ·) && !f.returns.isEmpty

end XrsVerif.Meta
