import XrsVerif.Gen.Indices
/-! How a public spectral-index function evaluates one cell: the generated wiring applied to the
    generated kernel.  (Mathlib-free; `pub` maps the public parameter names to values.) -/
namespace XrsVerif
open Gen

def Gen.IndexWiring.value {F : Type} [Fl F] (w : IndexWiring) (pub : String → F) : F :=
  let arrMap := w.kernel.arrays.zip w.arrays
  let scMap := w.kernel.scalars.zip w.scalars
  w.kernel.cell
    (fun n => match scMap.find? (·.1 == n) with | some (_, p) => pub p | none => Fl.nan)
    (fun n _ _ => match arrMap.find? (·.1 == n) with | some (_, p) => pub p | none => Fl.nan)
    (fun _ => [])

/-- public arguments given as an association list -/
def pubOf {F : Type} [Fl F] (l : List (String × F)) : String → F :=
  fun n => match l.find? (·.1 == n) with | some (_, v) => v | none => Fl.nan

end XrsVerif
