import XrsVerif.Model.DistanceStr
/-
  Hand model of the array plumbing of `_ellipse_kernel`, `circle_kernel`, `annulus_kernel` (C19),
  generic in the number type `F` (`Float` in the driver, `NV K` in the theorems).  Mathlib-free.

  What is *generated* (Gen/MetricFacts.lean) and only used here: the mask predicate `Gen.ellipse_pred`
  (a KLang kernel over the scalars x, y, half_w, half_h), the `np.linspace` arguments and axes of x and
  y, the half-width expressions of `circle_kernel`, the pad widths / constant and the combination
  operator of `annulus_kernel`.
  What is modelled by hand: `np.linspace` on integer end points, broadcasting of a row against a
  column, `np.pad(mode='constant')`, elementwise combination of equal shapes, the error cases.
-/
namespace XrsVerif.CircleK
open XrsVerif.DistStr

variable {F : Type} [Fl F]

def ofInt (n : Int) : F := Fl.lit n 1

/-- `np.linspace(start, stop, num)[j]` for integer end points: `j * ((stop - start) / (num - 1)) + start`
    (numpy computes `arange(num) * step + start`; one sample is `start`) -/
def linspaceAt (start stop num : Int) (j : Nat) : F :=
  if num ≤ 1 then ofInt start
  else Fl.add (Fl.mul (ofInt (j : Int)) (Fl.div (ofInt (stop - start)) (ofInt (num - 1)))) (ofInt start)

/-- a 2-D array in function representation -/
structure KGrid (F : Type) where
  rows : Nat
  cols : Nat
  cell : Nat → Nat → F

def KGrid.toRows (g : KGrid F) : List (List F) :=
  (List.range g.rows).map fun i => (List.range g.cols).map fun j => g.cell i j

/-- scalar environment of the generated predicate -/
def predEnv (x y hw hh : F) : String → F := fun n =>
  if n = "x" then x else if n = "y" then y else if n = "half_w" then hw else if n = "half_h" then hh
  else Fl.nan

/-- entry (i, j) of `_ellipse_kernel(hw, hh)`: x runs along the columns, y along the rows -/
def ellipseEntry (hw hh : Int) (i j : Nat) : F :=
  let x : F := linspaceAt (Gen.ellipse_x_start hw hh) (Gen.ellipse_x_stop hw hh) (Gen.ellipse_x_num hw hh) j
  let y : F := linspaceAt (Gen.ellipse_y_start hw hh) (Gen.ellipse_y_stop hw hh) (Gen.ellipse_y_num hw hh) i
  Gen.ellipse_pred.cell (predEnv x y (ofInt hw) (ofInt hh)) (fun _ _ _ => Fl.nan) (fun _ => [])

/-- `_ellipse_kernel(hw, hh)`; a negative number of samples is a ValueError of np.linspace -/
def ellipseKernel (hw hh : Int) : Except String (KGrid F) :=
  if Gen.ellipse_x_num hw hh < 0 ∨ Gen.ellipse_y_num hw hh < 0 then .error "ValueError"
  else if Gen.ellipse_x_axis ≠ 1 ∨ Gen.ellipse_y_axis ≠ 0 then .error "shape"
  else .ok ⟨(Gen.ellipse_y_num hw hh).toNat, (Gen.ellipse_x_num hw hh).toNat, ellipseEntry hw hh⟩

/-- `int(r / cellsize)` for a Python float `r` and a Python number `cellsize` -/
def halfWidth (r : PyFloat) (cs : Rat) (hw : Rat → Int) : Except String Int :=
  if cs = 0 then .error "ZeroDivisionError" else
  match r with
  | .nan => .error "ValueError"
  | .pinf => .error "OverflowError"
  | .ninf => .error "OverflowError"
  | .fin q => .ok (hw q)

/-- `circle_kernel(cx, cy, radius)` given `d = _get_distance(str(radius))`; `rnd` rounds the float
    division inside the generated half-width expressions -/
def circleKernel (rnd : Rat → Rat) (cx cy : Rat) (d : Dist) : Except String (KGrid F) :=
  match d with
  | .err _ => .error "ValueError"
  | .val r =>
    match halfWidth r cx (fun q => Gen.circle_half_w rnd q cx cy) with
    | .error e => .error e
    | .ok hw =>
      match halfWidth r cy (fun q => Gen.circle_half_h rnd q cx cy) with
      | .error e => .error e
      | .ok hh => ellipseKernel hw hh

/-- `np.pad(g, ((bt, af), (bl, ar)), mode='constant', constant_values=v)` -/
def pad (g : KGrid F) (bt af bl ar : Int) (v : F) : Except String (KGrid F) :=
  if bt < 0 ∨ af < 0 ∨ bl < 0 ∨ ar < 0 then .error "ValueError"
  else .ok ⟨g.rows + bt.toNat + af.toNat, g.cols + bl.toNat + ar.toNat, fun i j =>
    if bt.toNat ≤ i ∧ i < bt.toNat + g.rows ∧ bl.toNat ≤ j ∧ j < bl.toNat + g.cols
    then g.cell (i - bt.toNat) (j - bl.toNat) else v⟩

/-- `outer op padded` / `padded op outer` -/
def combine (o p : F) : F :=
  if Gen.annulus_outer_first then Gen.annulus_combine_op.eval o p else Gen.annulus_combine_op.eval p o

/-- the part of `annulus_kernel` after the two circle kernels: pad the inner one, combine.
    Shapes that differ after padding are reported as "broadcast" (numpy would raise, or broadcast an
    extent of 1; `annulus_shape` shows the case does not arise). -/
def annulusOf (o n : KGrid F) : Except String (KGrid F) :=
  match pad n (Gen.annulus_pad_before_rows o.rows o.cols n.rows n.cols)
              (Gen.annulus_pad_after_rows o.rows o.cols n.rows n.cols)
              (Gen.annulus_pad_before_cols o.rows o.cols n.rows n.cols)
              (Gen.annulus_pad_after_cols o.rows o.cols n.rows n.cols)
              (ofInt Gen.annulus_pad_constant) with
  | .error e => .error e
  | .ok p =>
    if p.rows ≠ o.rows ∨ p.cols ≠ o.cols then .error "broadcast"
    else .ok ⟨o.rows, o.cols, fun i j => combine (o.cell i j) (p.cell i j)⟩

/-- `annulus_kernel(cx, cy, outer_radius, inner_radius)` given the two parsed radii -/
def annulusKernel (rnd : Rat → Rat) (cx cy : Rat) (dOuter dInner : Dist) : Except String (KGrid F) :=
  match circleKernel (F := F) rnd cx cy dOuter with
  | .error e => .error e
  | .ok o =>
    match circleKernel (F := F) rnd cx cy dInner with
    | .error e => .error e
    | .ok n => annulusOf o n

end XrsVerif.CircleK
