import XrsVerif.Gen.ViewshedFacts
/-
  C05 -- executable model of the EVENT GEOMETRY of `xrspatial/viewshed.py` (no Mathlib: linked into the driver).

  What `_init_event_list` + `np.lexsort` + the first loop of `_viewshed_cpu_sweep` produce, in exact arithmetic:

    * `posOff`      `_calc_event_pos`: which corner of a cell is the entering / exiting one, by the position of the cell
                    relative to the observer (quadrant or axis) -- looked up in `Gen.Viewshed.calcEventPosTable`, the
                    if-chain read from the source on every run;
    * `nbOff`       `_calculate_event_row_col`: the diagonal neighbour beyond that corner (`calcEventRowColTable`);
    * `cornerElev`  `_calc_event_elev`: mean of the four cells meeting at the corner, the cell's own elevation when
                    the diagonal neighbour is outside the raster (terrains are NaN-free: the property's quantifier);
    * `eventList`   three events per non-observer cell, row-major, ENTER / CENTER / EXIT, with the doubled index
                    coordinates of the event point and the three elevations;
    * `evLe`, `sortedEvents`
                    the order of `np.lexsort((type, bearing))`: bearing in [0, 2π) counter-clockwise from east,
                    compared exactly (half plane, then the sign of a cross product), ties by the event type
                    EXIT < CENTER < ENTER, remaining ties in generation order (merge sort is stable, as lexsort is);
    * `key`         squared map distance (the status structure's key);
    * `dataRow`     the observer-row buffer `data` (three elevations per column) that seeds the status structure;
    * `initialCols` the cells put into the status structure before the sweep;
    * `sweepOps`    the cell-level operation list of the sweep: initial insertions, then per sorted event
                    insert (ENTER) / query (CENTER) / delete (EXIT);
    * `replay`      the active-set discipline: an insertion of an inactive cell, a deletion / query of an active one.

  Rows grow downwards (as in the raster); "doubled" coordinates are 2·row, 2·col so that corners are integers.
  Bearings are never computed: the theorems (Props/C05.lean) and the comparison with the real code use cross products.
-/
namespace XrsVerif.ViewshedEvents
open XrsVerif.Gen.Viewshed

/-- the sign, as the generated tables encode it -/
def sg (x : Int) : Int := if x < 0 then -1 else if x = 0 then 0 else 1

abbrev Row6 := Int × Int × Int × Int × Int × Int

/-- the first branch of a generated if-chain whose condition holds -/
def branch (tbl : List Row6) (sr sc : Int) : Option Row6 := tbl.find? fun e => e.1 == sr && e.2.1 == sc

/-- pick the ENTER (`ty = 1`) or EXIT half of a branch -/
def pick (tbl : List Row6) (ty dr dc : Int) : Int × Int :=
  match branch tbl (sg dr) (sg dc) with
  | some (_, _, ey, ex, xy, xx) => if ty = 1 then (ey, ex) else (xy, xx)
  | none => (0, 0)

/-- `_calc_event_pos(ty, row, col, vr, vc)`: TWICE the offset (dy, dx) of the event point from the cell centre;
    `dr = row - vr`, `dc = col - vc`; `ty`: 1 ENTER, 0 CENTER, -1 EXIT -/
def posOff (ty dr dc : Int) : Int × Int := if ty = 0 then (0, 0) else pick calcEventPosTable ty dr dc

/-- `_calculate_event_row_col`: offset (dy, dx) of the diagonal neighbour beyond the ENTER / EXIT corner -/
def nbOff (ty dr dc : Int) : Int × Int := pick calcEventRowColTable ty dr dc

/-- `_calc_event_elev`: elevation of the ENTER (`ty = 1`) / EXIT (`ty = -1`) corner of cell `(row, col)` of the
    `h × w` terrain `T` seen from `(vr, vc)` -/
def cornerElev (T : Int → Int → Rat) (h w vr vc ty row col : Int) : Rat :=
  let o := nbOff ty (row - vr) (col - vc)
  let r1 := row + o.1
  let c1 := col + o.2
  if 0 ≤ r1 ∧ r1 < h ∧ 0 ≤ c1 ∧ c1 < w then (T r1 c1 + T r1 col + T row c1 + T row col) / 4 else T row col

structure Event where
  row : Int
  col : Int
  ty : Int          -- 1 ENTER, 0 CENTER, -1 EXIT
  y2 : Int          -- doubled index coordinates of the event point
  x2 : Int
  e0 : Rat          -- elevation of the entering corner, the centre, the exiting corner
  e1 : Rat
  e2 : Rat
  deriving DecidableEq, Repr, Inhabited

def mkEvent (T : Int → Int → Rat) (h w vr vc row col ty : Int) : Event :=
  let o := posOff ty (row - vr) (col - vc)
  { row := row, col := col, ty := ty, y2 := 2 * row + o.1, x2 := 2 * col + o.2,
    e0 := cornerElev T h w vr vc 1 row col, e1 := T row col, e2 := cornerElev T h w vr vc (-1) row col }

/-- the three events of one cell, in the order `_init_event_list` appends them -/
def cellEvents (T : Int → Int → Rat) (h w vr vc row col : Int) : List Event :=
  [mkEvent T h w vr vc row col 1, mkEvent T h w vr vc row col 0, mkEvent T h w vr vc row col (-1)]

/-- `_init_event_list`: row-major over the raster, the observer's cell skipped -/
def eventList (T : Int → Int → Rat) (h w : Nat) (vr vc : Int) : List Event :=
  (List.range h).flatMap fun (i : Nat) => (List.range w).flatMap fun (j : Nat) =>
    if (i : Int) = vr ∧ (j : Int) = vc then [] else cellEvents T h w vr vc i j

/-! ### bearings, exactly -/

/-- the event point relative to the observer's centre, doubled; x to the east, y to the NORTH -/
def Event.px (vc : Int) (e : Event) : Int := e.x2 - 2 * vc
def Event.py (vr : Int) (e : Event) : Int := 2 * vr - e.y2

/-- 0 for a bearing in [0, π), 1 for [π, 2π); 2 for the null vector (never an event: the observer's cell has none) -/
def half (px py : Int) : Int :=
  if 0 < py ∨ (py = 0 ∧ 0 < px) then 0 else if py < 0 ∨ (py = 0 ∧ px < 0) then 1 else 2

def cross (ax ay bx by_ : Int) : Int := ax * by_ - ay * bx

/-- bearing of `p` < bearing of `q` (both in [0, 2π), counter-clockwise from east) -/
def angLt (px py qx qy : Int) : Bool :=
  decide (half px py < half qx qy) || (decide (half px py = half qx qy) && decide (0 < cross px py qx qy))

/-- same bearing -/
def angEq (px py qx qy : Int) : Bool :=
  decide (half px py = half qx qy) && decide (cross px py qx qy = 0)

/-- the order of `np.lexsort((event_list[:, E_TYPE_ID], event_list[:, E_ANG_ID]))`: bearing first, then the type code -/
def evLe (vr vc : Int) (a b : Event) : Bool :=
  angLt (a.px vc) (a.py vr) (b.px vc) (b.py vr) ||
    (angEq (a.px vc) (a.py vr) (b.px vc) (b.py vr) && decide (a.ty ≤ b.ty))

def sortedEvents (T : Int → Int → Rat) (h w : Nat) (vr vc : Int) : List Event :=
  (eventList T h w vr vc).mergeSort (evLe vr vc)

/-! ### keys, the observer-row buffer, the initial fill, the operation list -/

/-- `_calc_dist_n_grad`: squared map distance -/
def key (ew ns : Rat) (vr vc row col : Int) : Rat :=
  (((col - vc : Int) : Rat) * ew) * (((col - vc : Int) : Rat) * ew) + (((row - vr : Int) : Rat) * ns) * (((row - vr : Int) : Rat) * ns)

/-- `data[0..2][j]` after `_init_event_list`: the observer's own column keeps its centre elevation three times -/
def dataRow (T : Int → Int → Rat) (h w : Nat) (vr vc : Int) : List (Rat × Rat × Rat) :=
  (List.range w).map fun (j : Nat) =>
    if (j : Int) = vc then (T vr vc, T vr vc, T vr vc)
    else (cornerElev T h w vr vc 1 vr j, T vr j, cornerElev T h w vr vc (-1) vr j)

/-- columns of the cells inserted before the sweep: `for i in range(vp_col + 1, n_cols)` on the observer's row -/
def initialCols (w : Nat) (vc : Int) : List Int :=
  ((List.range w).map fun (j : Nat) => (j : Int)).filter fun j => decide (vc < j)

inductive COp where
  | ins (row col : Int) (initial : Bool)
  | del (row col : Int)
  | qry (row col : Int)
  deriving DecidableEq, Repr, Inhabited

def COp.row : COp → Int | .ins r _ _ => r | .del r _ => r | .qry r _ => r
def COp.col : COp → Int | .ins _ c _ => c | .del _ c => c | .qry _ c => c
/-- 1 insert, 0 query, -1 delete (the event codes) -/
def COp.kind : COp → Int | .ins _ _ _ => 1 | .del _ _ => -1 | .qry _ _ => 0

def opOfEvent (e : Event) : COp :=
  if e.ty = 1 then .ins e.row e.col false else if e.ty = -1 then .del e.row e.col else .qry e.row e.col

/-- the sweep at cell level: initial fill, then one operation per sorted event -/
def sweepOps (T : Int → Int → Rat) (h w : Nat) (vr vc : Int) : List COp :=
  (initialCols w vc).map (fun j => COp.ins vr j true) ++ (sortedEvents T h w vr vc).map opOfEvent

/-- the active-set discipline of one cell's operations: `act` = the cell is in the status structure -/
def replay1 : Bool → List Int → Bool
  | _, [] => true
  | act, k :: ks => if k = 1 then !act && replay1 true ks else if k = -1 then act && replay1 false ks else act && replay1 act ks

/-- the active-set discipline of a whole operation list over the set of active cells -/
def replay : List (Int × Int) → List COp → Bool
  | _, [] => true
  | act, .ins r c _ :: ops => !(act.contains (r, c)) && replay ((r, c) :: act) ops
  | act, .del r c :: ops => act.contains (r, c) && replay (act.filter fun p => !(p == (r, c))) ops
  | act, .qry r c :: ops => act.contains (r, c) && replay act ops

end XrsVerif.ViewshedEvents
