import XrsVerif.Model.BufProg
import XrsVerif.Model.Meta
/-!
  C10: what is demanded of one generated entry, given the contract table of `Model/Meta.lean`.
-/
namespace XrsVerif.BP
open XrsVerif.Meta

def Entry.contract (e : Entry) : Contract := contractOf e.name e.params

/-- the aliasing obligation of a public function: no input buffer (cells, coordinates, attrs of any
    parameter) is ever written, and -- unless the function is documented to return a view -- none of the
    result's components (cells, coordinates, attrs) lies in an input buffer -/
def entryOk (e : Entry) : Bool :=
  if e.contract.retMayAlias then noInputWrite e.prog (inputs e.k) else safeAll e.prog (inputs e.k) e.ret.slots

/-- the metadata obligation: every reachable `return` conforms to the contract and only documented
    parameters are re-bound -/
def metaOk (params : String → List String) (f : FuncMeta) : Bool :=
  conforms (contractOf f.name (params f.name)) f

def paramsOf (es : List Entry) (name : String) : List String :=
  ((es.find? (·.name == name)).map (·.params)).getD []

end XrsVerif.BP
