import XrsVerif.Gen.ViewshedFacts
import XrsVerif.Model.ViewshedEvents
/-
  C05 -- executable model of the WRAPPER GLUE of `xrspatial/viewshed.py: _viewshed_cpu` (no Mathlib: linked into the
  driver).  What the public function derives from the DataArray before it calls the numba kernels:

    * `inRange`        the `ValueError` guard `coords.min() <= v <= coords.max()` per axis;
    * `nearest`        `raster.sel(.., method='nearest')`: the coordinate nearest to `v` (on an exact tie -- `v` half way
                       between two centres -- the LARGER coordinate: what pandas' `get_indexer(method='nearest')` does on a
                       monotonic index, ascending or descending; observed, compared on every run, not part of the property);
    * `obsIndex`       then the first index whose coordinate equals the selected one (`np.where(coords == v)[0][0]`);
    * `resOf`          the cell size `(c[-1] - c[0]) / (n - 1)` over the coordinate array -- SIGNED: negative on a
                       descending axis; the kernels only ever square it (`ViewshedEvents.key`);
    * `wrapperInputs`  what `_viewshed_cpu_sweep` receives: observer cell, cell sizes, eye elevation, target offset --
                       an INTERPRETER of the facts `Gen.Viewshed.{ewResSrc, nsResSrc, obsRowSrc, obsColSrc, sweepArgs, ..}`
                       read from the source on every run: a source shape the reader does not know (`.other`,
                       `wrapperOk = false`, an argument in another position) makes it `error`, never a guess.

  The raster has dims (y, x): `ys.length` rows, `xs.length` columns.
-/
namespace XrsVerif.ViewshedWrapper
open XrsVerif.Gen.Viewshed XrsVerif.ViewshedEvents

/-- |a - b| -/
def dist (a b : Rat) : Rat := if a ≤ b then b - a else a - b

/-- `coords.min() <= v <= coords.max()` -/
def inRange (cs : List Rat) (v : Rat) : Bool := cs.any (fun c => decide (c ≤ v)) && cs.any (fun c => decide (v ≤ c))

/-- (index, coordinate) of the coordinate nearest to `v`; on an exact tie the larger coordinate -/
def nearest (v : Rat) : List Rat → Option (Nat × Rat)
  | [] => none
  | c :: cs =>
    match nearest v cs with
    | none => some (0, c)
    | some (j, b) => if dist c v < dist b v ∨ (dist c v = dist b v ∧ b < c) then some (0, c) else some (j + 1, b)

/-- the coordinate array of an axis of a (y, x) raster -/
def axisCoords (axis : String) (xs ys : List Rat) : Option (List Rat) :=
  if axis = "x" then some xs else if axis = "y" then some ys else none

/-- `raster.shape[k]` of a (y, x) raster -/
def extentOf (e : String) (xs ys : List Rat) : Option Nat :=
  if e = "shape[0]" then some ys.length else if e = "shape[1]" then some xs.length else none

/-- the observer's index along an axis, as the source finds it -/
def obsIndex (src : ObsSrc) (xs ys : List Rat) (x y : Rat) : Option Nat :=
  match src with
  | .nearestThenEq axis =>
    match axisCoords axis xs ys with
    | some cs =>
      let v := if axis = "x" then x else y
      (nearest v cs).map fun p => cs.findIdx (fun c => c == p.2)
    | none => none
  | .other _ => none

/-- a cell size, as the source computes it -/
def resOf (src : ResSrc) (xs ys : List Rat) : Option Rat :=
  match src with
  | .coordSpan axis extent =>
    match axisCoords axis xs ys, extentOf extent xs ys with
    | some cs, some n =>
      match cs.head?, cs.getLast? with
      | some a, some b => some ((b - a) / ((n : Rat) - 1))
      | _, _ => none
    | _, _ => none
  | .other _ => none

/-- the role of what is passed for parameter `p` of `_viewshed_cpu_sweep` -/
def sweepArg (p : String) : Option String := (sweepParams.zip sweepArgs).lookup p

/-- the positional wiring of the two kernel calls, the sort and the split are the ones the model assumes -/
def wiringOk : Bool :=
  wrapperOk &&
  sweepParams.length == sweepArgs.length &&
  sweepArg "raster" == some "raster.values:float64" &&
  sweepArg "vp_row" == some "obs:y" && sweepArg "vp_col" == some "obs:x" &&
  sweepArg "vp_elev" == some "velev" && sweepArg "vp_target" == some "vtarget" &&
  sweepArg "ew_res" == some "res:x" && sweepArg "ns_res" == some "res:y" &&
  sweepArg "event_rcts" == some "rcts" && sweepArg "event_aes" == some "aes" &&
  sweepArg "data" == some "zeros:data" && sweepArg "visibility_grid" == some "filled:INVISIBLE" &&
  initEventListArgs == [("event_list", "zeros:events"), ("raster", "raster.values:float64"), ("vp_row", "obs:y"),
    ("vp_col", "obs:x"), ("data", "zeros:data"), ("visibility_grid", "filled:INVISIBLE")] &&
  sortedEventsSrc == "lexsort(E_TYPE_ID,E_ANG_ID)" && lexsortKeys == ["E_TYPE_ID", "E_ANG_ID"] &&
  eventRctsSrc == ("sorted[:, :3]", "int64") && eventAesSrc == ("sorted[:, 3:]", "float64") &&
  rangeChecks == [("x", "ValueError"), ("y", "ValueError")] &&
  viewpointElevSrc == "float(raster.values[obs:row, obs:col]) + observer_elev" &&
  viewpointTargetSrc == "target_elev if target_elev > 0 else 0.0" &&
  rasterCast == "raster.values.astype(np.float64)" && rasterCastBeforeInit

/-- what `_viewshed_cpu_sweep` is called with (the arrays are `ViewshedEvents.sortedEvents` / `dataRow` of `vr vc`) -/
structure Inputs where
  vr : Nat
  vc : Nat
  ew : Rat
  ns : Rat
  velev : Rat
  vt : Rat
  deriving DecidableEq, Repr, Inhabited

/-- `_viewshed_cpu` up to the kernel calls, for the terrain `T` on the coordinates `xs`, `ys`, observer `(x, y)` in data space -/
def wrapperInputs (T : Int → Int → Rat) (xs ys : List Rat) (x y oe te : Rat) : Except String Inputs :=
  if !wiringOk then .error "unknown-wrapper-shape"
  else if !inRange xs x then .error "ValueError"
  else if !inRange ys y then .error "ValueError"
  else
    match obsIndex obsRowSrc xs ys x y, obsIndex obsColSrc xs ys x y, resOf ewResSrc xs ys, resOf nsResSrc xs ys with
    | some vr, some vc, some ew, some ns =>
      .ok { vr := vr, vc := vc, ew := ew, ns := ns, velev := T vr vc + oe, vt := if 0 < te then te else 0 }
    | _, _, _, _ => .error "unknown-wrapper-shape"

/-- equally spaced coordinates `c0, c0 + d, .., c0 + (n-1) d` -/
def coordsAP (c0 d : Rat) (n : Nat) : List Rat := (List.range n).map fun (j : Nat) => c0 + (j : Rat) * d

end XrsVerif.ViewshedWrapper
