/-
  Model of `xrspatial/local.py` (C17).  No Mathlib import: linked into the driver.

  Every operator of local.py has the same shape:

      iter_list = [tuple(...) for comb in np.nditer([raster[v].data for v in data_vars], order='C')]
      ref_list  = [item for arr in raster[ref_var].data for item in arr]          # when there is a ref layer
      out       = [<per-cell code>(ref, comb) for ref, comb in zip(ref_list, iter_list)]
      np.reshape(np.array(out), (-1, ncols))

  With `order='C'` (the repaired code, fixes/D11-…) the lock-step iteration visits the cells in
  row-major *index* order whatever the memory layout of the layers, so `iter_list` is the
  row-major zip of the layers.  The model therefore takes each layer as its row-major list of
  cell values and is `List.map` / `List.zipWith` of a per-cell function over `zipCells`.

  Values: `V = Option Rat`, `none` = NaN (exact numbers; ±inf is outside the model).
  Counts / positions / ids are returned as (integral) rationals, as numpy returns them in a
  float array as soon as one cell is NaN.
-/
namespace XrsVerif.Local

abbrev V := Option Rat

/-- `np.isnan(comb).any()` -/
def anyNaN (c : List V) : Bool := c.any (·.isNone)

/-- the numbers of a tuple (all of them when the tuple has no NaN) -/
def vals (c : List V) : List Rat := c.filterMap id

/-! ### the lock-step iteration -/

/-- the tuple `comb` at flat (row-major) position `i` -/
def cellAt (layers : List (List V)) (i : Nat) : List V := layers.map (fun l => l.getD i none)

/-- `iter_list`: `n` cells (n = rows*cols of the first layer), row-major -/
def zipCells (n : Nat) (layers : List (List V)) : List (List V) := (List.range n).map (cellAt layers)

/-- operators without a reference layer -/
def mapCells (f : List V → V) (n : Nat) (layers : List (List V)) : List V :=
  (zipCells n layers).map f

/-- operators with a reference layer: `zip(ref_list, iter_list)` -/
def mapCellsRef {ρ : Type} (f : ρ → List V → V) (ref : List ρ) (n : Nat) (layers : List (List V)) : List V :=
  List.zipWith f ref (zipCells n layers)

/-! ### cell_stats -/

inductive Stat where
  | max | mean | median | min | std | sum
  deriving DecidableEq, Repr

def sumOf (xs : List Rat) : Rat := xs.sum

def maxOf : List Rat → Rat
  | [] => 0
  | x :: xs => xs.foldl (fun m y => if m < y then y else m) x

def minOf : List Rat → Rat
  | [] => 0
  | x :: xs => xs.foldl (fun m y => if y < m then y else m) x

def meanOf (xs : List Rat) : Rat := sumOf xs / (xs.length : Rat)

def insertSorted (a : Rat) : List Rat → List Rat
  | [] => [a]
  | b :: t => if a ≤ b then a :: b :: t else b :: insertSorted a t

/-- `sorted(comb)` / `comb.sort()`: insertion sort (any sorting algorithm gives the same list of
    numbers; structural recursion keeps the model kernel-reducible) -/
def sorted (xs : List Rat) : List Rat := xs.foldr insertSorted []

/-- numpy's median: the middle element, or the mean of the two middle elements -/
def medianOf (xs : List Rat) : Rat :=
  let s := sorted xs
  let n := s.length
  if n % 2 = 1 then s.getD (n / 2) 0 else (s.getD (n / 2 - 1) 0 + s.getD (n / 2) 0) / 2

/-- population variance; `np.std` is its square root (taken by the harness, not by the model) -/
def varOf (xs : List Rat) : Rat :=
  let m := meanOf xs
  sumOf (xs.map fun x => (x - m) * (x - m)) / (xs.length : Rat)

def statOf : Stat → List Rat → Rat
  | .max => maxOf | .mean => meanOf | .median => medianOf | .min => minOf | .std => varOf | .sum => sumOf

/-- `funcs[func](comb)`: every numpy reduction used propagates NaN -/
def statCell (s : Stat) (c : List V) : V := if anyNaN c then none else some (statOf s (vals c))

/-! ### frequencies versus the reference layer -/

def lesserCount (r : Rat) (xs : List Rat) : Nat := xs.countP (fun x => decide (x < r))     -- `ref > item`
def equalCount (r : Rat) (xs : List Rat) : Nat := xs.countP (fun x => decide (r = x))      -- `ref == item`
def greaterCount (r : Rat) (xs : List Rat) : Nat := xs.countP (fun x => decide (r < x))    -- `ref < item`

/-- a NaN reference compares false with everything: the count is 0 -/
def freqCell (cnt : Rat → List Rat → Nat) (ref : V) (c : List V) : V :=
  if anyNaN c then none else
    match ref with
    | none => some 0
    | some r => some ((cnt r (vals c) : Nat) : Rat)

def lesserCell := freqCell lesserCount
def equalCell := freqCell equalCount
def greaterCell := freqCell greaterCount

/-! ### positions -/

/-- `comb.index(min(comb)) + 1` -/
def lowestPos (xs : List Rat) : Nat := xs.idxOf (minOf xs) + 1
def highestPos (xs : List Rat) : Nat := xs.idxOf (maxOf xs) + 1

def lowestCell (c : List V) : V := if anyNaN c then none else some ((lowestPos (vals c) : Nat) : Rat)
def highestCell (c : List V) : V := if anyNaN c then none else some ((highestPos (vals c) : Nat) : Rat)

/-! ### rank and popularity (integer reference layer) -/

/-- result of a per-cell computation that may raise (Python `IndexError`) -/
inductive R where
  | ok (v : V)
  | indexError
  deriving DecidableEq, Repr

/-- Python list indexing `xs[k]` with a possibly negative `k` -/
def pyIndex (xs : List Rat) (k : Int) : Option Rat :=
  if 0 ≤ k then xs[k.toNat]? else
    if 0 ≤ (xs.length : Int) + k then xs[((xs.length : Int) + k).toNat]? else none

/-- `comb.sort(); nan if isnan(comb).any() or ref-1 >= len(comb) else comb[ref-1]` -/
def rankCellR (ref : Int) (c : List V) : R :=
  if anyNaN c || decide ((c.length : Int) ≤ ref - 1) then .ok none else
    match pyIndex (sorted (vals c)) (ref - 1) with
    | some v => .ok (some v)
    | none => .indexError

/-- strictly increasing list of the distinct values: `sorted(Counter(comb).keys())` -/
def distinctSorted (xs : List Rat) : List Rat := (sorted xs).eraseDups

def popularityCellR (ref : Int) (c : List V) : R :=
  let d := distinctSorted (vals c)
  if anyNaN c || decide (c.length ≤ d.length) then .ok none
  else if d.length = 1 then .ok (some (d.getD 0 0))
  else if (d.length : Int) ≤ ref - 1 then .ok none
  else match pyIndex d (ref - 1) with
    | some v => .ok (some v)
    | none => .indexError

/-- the whole call raises as soon as one cell raises -/
def collect : List R → Option (List V)
  | [] => some []
  | .ok v :: rs => (collect rs).map (v :: ·)
  | .indexError :: _ => none

/-- `rank` restricted to where it cannot raise (`1 ≤ ref`): what the property talks about -/
def rankCell (ref : Int) (c : List V) : V :=
  match rankCellR ref c with | .ok v => v | .indexError => none

/-! ### combine -/

structure CState where
  dict : List (List Rat × Nat)    -- `unique_comb`, in insertion order
  next : Nat                      -- `value`
  out : List (Option Nat)         -- `all_values` (`none` = NaN)

/-- one iteration of the loop over `iter_list` (the placeholder-0 / second pass of the source is
    folded into the lookup) -/
def combineStep (st : CState) (c : List V) : CState :=
  if anyNaN c then { st with out := st.out ++ [none] }
  else match st.dict.lookup (vals c) with
    | some id => { st with out := st.out ++ [some id] }
    | none => { dict := st.dict ++ [(vals c, st.next)], next := st.next + 1,
                out := st.out ++ [some st.next] }

def combineRun (cells : List (List V)) : CState := cells.foldl combineStep ⟨[], 1, []⟩

/-- ids (flat, row-major) and `attrs['key']` = `unique_values` (id ↦ tuple, insertion order) -/
def combine (n : Nat) (layers : List (List V)) : List (Option Nat) × List (Nat × List Rat) :=
  let st := combineRun (zipCells n layers)
  (st.out, st.dict.map fun (t, id) => (id, t))

/-! ### the shape of the source, as read from the `ast` by harness/facts_local.py (Gen/LocalFacts.lean)

  The generated constants say which comparison each frequency operator applies between the reference and a
  layer value, under which test a cell is written as NaN, in which order `np.nditer` walks the layers, the
  `+ 1` of the positions, the `- 1` of rank, where `combine` starts numbering and by how much it advances.
  The functions below interpret such a shape; Props/C17.lean proves that the shapes found in the current
  source are the canonical ones, that their interpretation is the hand model above, and states the property
  for the interpretation of the generated shapes.  An unrecognised piece of source is `.other "<text>"`
  (or `ok := false`), which no theorem accepts. -/

/-- `ref <cmp> item` -/
inductive Cmp where
  | lt | le | eq | ne | ge | gt
  | other (src : String)      -- not a single comparison of the two, e.g. a call `np.isclose(ref, item)`
  deriving DecidableEq, Repr, Inhabited

/-- the test under which a cell is written as NaN -/
inductive NanTest where
  | anyNan                    -- `np.isnan(comb).any()` / `np.any(np.isnan(comb))`
  | other (src : String)      -- e.g. `np.isnan(sum(comb))`
  deriving DecidableEq, Repr, Inhabited

inductive IterOrder where
  | c | other (src : String)
  deriving DecidableEq, Repr, Inhabited

inductive Sel where
  | min | max | other (src : String)
  deriving DecidableEq, Repr, Inhabited

/-- what every operator shares: `for comb in np.nditer([raster[var].data for var in data_vars], order=…)`
    collecting `tuple(items.item() …)`, a loop over that list (zipped with the row-major reference list), and
    `np.reshape(np.array(out), (-1, raster[data_vars[0]].data.shape[1]))` -/
structure Frame where
  ok : Bool
  order : IterOrder
  layersInOrder : Bool
  reshapeByCols : Bool
  deriving DecidableEq, Repr, Inhabited

/-- `count = init; for item in comb: if ref <cmp> item: count += step; out.append(count)` -/
structure FreqShape where
  ok : Bool
  nanTest : NanTest
  cmp : Cmp
  countInit : Nat
  countStep : Nat
  /-- the reference list is the row-major flattening of the reference layer, zipped with the cell tuples -/
  refRowMajor : Bool
  deriving DecidableEq, Repr, Inhabited

/-- `out.append(comb.index(sel(comb)) + offset)` -/
structure PosShape where
  ok : Bool
  nanTest : NanTest
  sel : Sel
  offset : Nat
  deriving DecidableEq, Repr, Inhabited

/-- `comb.sort(); nan if <nanTest> or ref + refOffset <beyond> len(comb) else comb[ref + refOffset]` -/
structure RankShape where
  ok : Bool
  nanTest : NanTest
  refOffset : Int
  beyond : Cmp
  sorts : Bool
  deriving DecidableEq, Repr, Inhabited

/-- ids start at `firstId`, advance by `idStep` at every new tuple; `keyed`: membership is looked up in the
    dictionary by the tuple, known tuples get the stored id, and `attrs['key']` is the id -> tuple dictionary -/
structure CombineShape where
  ok : Bool
  nanTest : NanTest
  firstId : Nat
  idStep : Nat
  keyed : Bool
  deriving DecidableEq, Repr, Inhabited

structure StatsShape where
  ok : Bool
  /-- the `funcs` table: statistic name -> numpy reduction -/
  funcs : List (String × String)
  /-- every cell gets `funcs[func](comb)` -/
  perCell : Bool
  deriving DecidableEq, Repr, Inhabited

structure PopShape where
  ok : Bool
  nanTest : NanTest
  deriving DecidableEq, Repr, Inhabited

/-- how two variable *names* are compared: `==` / `in` / `list.remove` compare by value; `is` compares object
    identity, which for strings is an accident of interning -- read as `.other` -/
inductive NameCmp where
  | byValue
  | other (src : String)      -- e.g. `var is not ref_var`
  deriving DecidableEq, Repr, Inhabited

/-- the layer selection: `if data_vars: <validation only> else: data_vars = list(raster.data_vars)` and, where there
    is a reference layer, `data_vars.remove(ref_var)` -/
structure SelectShape where
  ok : Bool
  hasRef : Bool
  /-- the explicit branch only raises on invalid arguments: `data_vars` is used as passed (order, repetitions) -/
  explicitAsGiven : Bool
  /-- the default branch starts from every variable of the dataset, in dataset order -/
  defaultAll : Bool
  /-- how the default branch recognises the reference variable that it takes out -/
  dropRef : NameCmp
  deriving DecidableEq, Repr, Inhabited

/-- the data layers an operator works on: `names` = the dataset's variables in order, `ref` = the reference
    variable (operators that have one), `dv` = the `data_vars` argument (`none` = left at its default).
    An unrecognised piece selects what no theorem accepts: nothing for an unreadable branch, and a reference
    variable compared by anything but its value is not removed. -/
def selectS (sh : SelectShape) (names : List String) (ref : Option String) (dv : Option (List String)) : List String :=
  match dv with
  | some l => if sh.explicitAsGiven then l else []
  | none =>
    if !sh.defaultAll then [] else
    match ref with
    | none => names
    | some r =>
      match sh.dropRef with
      | .byValue => names.erase r          -- `list.remove`: the first element equal to `r`
      | .other _ => names

def nanS : NanTest → List V → Bool
  | .anyNan, c => anyNaN c
  | .other _, _ => false

/-- `ref <cmp> item` on numbers -/
def cmpS : Cmp → Rat → Rat → Bool
  | .lt, r, x => decide (r < x)
  | .le, r, x => decide (r ≤ x)
  | .eq, r, x => decide (r = x)
  | .ne, r, x => !decide (r = x)
  | .ge, r, x => decide (x ≤ r)
  | .gt, r, x => decide (x < r)
  | .other _, _, _ => false

def cmpIntS : Cmp → Int → Int → Bool
  | .lt, a, b => decide (a < b)
  | .le, a, b => decide (a ≤ b)
  | .eq, a, b => decide (a = b)
  | .ne, a, b => !decide (a = b)
  | .ge, a, b => decide (b ≤ a)
  | .gt, a, b => decide (b < a)
  | .other _, _, _ => false

def freqCellS (sh : FreqShape) (ref : V) (c : List V) : V :=
  if nanS sh.nanTest c then none else
    match ref with
    | none => some ((sh.countInit : Nat) : Rat)
    | some r => some ((sh.countInit + sh.countStep * (vals c).countP (cmpS sh.cmp r) : Nat) : Rat)

def selS : Sel → List Rat → Rat
  | .min, xs => minOf xs
  | .max, xs => maxOf xs
  | .other _, _ => 0

def posCellS (sh : PosShape) (c : List V) : V :=
  if nanS sh.nanTest c then none else
    some (((vals c).idxOf (selS sh.sel (vals c)) + sh.offset : Nat) : Rat)

def rankCellS (sh : RankShape) (ref : Int) (c : List V) : R :=
  if nanS sh.nanTest c || cmpIntS sh.beyond (ref + sh.refOffset) (c.length : Int) then .ok none else
    match pyIndex (if sh.sorts then sorted (vals c) else vals c) (ref + sh.refOffset) with
    | some v => .ok (some v)
    | none => .indexError

def combineStepS (sh : CombineShape) (st : CState) (c : List V) : CState :=
  if nanS sh.nanTest c then { st with out := st.out ++ [none] }
  else match (if sh.keyed then st.dict.lookup (vals c) else none) with
    | some id => { st with out := st.out ++ [some id] }
    | none => { dict := st.dict ++ [(vals c, st.next)], next := st.next + sh.idStep,
                out := st.out ++ [some st.next] }

def combineS (sh : CombineShape) (n : Nat) (layers : List (List V)) : List (Option Nat) × List (Nat × List Rat) :=
  let st := (zipCells n layers).foldl (combineStepS sh) ⟨[], sh.firstId, []⟩
  (st.out, st.dict.map fun (t, id) => (id, t))

/-! ### the public operators (flat row-major output; the caller reshapes to `(-1, ncols)`) -/

def cellStats (s : Stat) := mapCells (statCell s)
def lesserFrequency := mapCellsRef lesserCell
def equalFrequency := mapCellsRef equalCell
def greaterFrequency := mapCellsRef greaterCell
def lowestPosition := mapCells lowestCell
def highestPosition := mapCells highestCell

/-- `rank` / `popularity`: `none` when the real call raises `IndexError` (a reference value ≤ 0 whose
    negative Python index falls off the list) -/
def rank (ref : List Int) (n : Nat) (layers : List (List V)) : Option (List V) :=
  collect (List.zipWith rankCellR ref (zipCells n layers))
def popularity (ref : List Int) (n : Nat) (layers : List (List V)) : Option (List V) :=
  collect (List.zipWith popularityCellR ref (zipCells n layers))

/-! ### specification vocabulary for `combine` (used by the theorems, not by the model) -/

/-- the distinct elements of a list in order of first occurrence -/
def dedup {α : Type} [BEq α] : List α → List α
  | [] => []
  | a :: as => a :: (dedup as).filter (fun x => !(x == a))

/-- the value tuples of the cells that have no NaN, in scan order -/
def tuples (cells : List (List V)) : List (List Rat) := (cells.filter (fun c => !anyNaN c)).map vals

end XrsVerif.Local
