import XrsVerif.Model.Bin
/-
  Model of `classify._run_numpy_jenks_matrices`, `_run_jenks` and `_run_natural_break`
  (xrspatial/classify.py:491-625), over exact rationals.  Mathlib-free and executable.

  The code fills two (n+1) x (k+1) matrices row by row; cell (l, j), j >= 2, l >= 2 only reads cells
  (i4, j-1) with 1 <= i4 < l, so the same table is obtained column by column, which is how the model
  computes it (`col`).  The order in which the candidates of one cell are met (i4 = l-1 down to 1) and the
  update test `var_combinations[l, j] >= new_variance` (a later candidate wins a tie) are kept.

      variance(i4, l) = sum_squares - sum*sum / w      over data[i4 .. l-1]      (`ssd`)
      V[l][1] = variance(0, l),  L[l][1] = 1
      V[l][j] = min over i4 in [1, l-1] of  variance(i4, l) + V[i4][j-1],   L[l][j] = argmin + 1
      V[1][j] = V[0][j] = 0, L[1][j] = 1, L[0][j] = 0
-/
namespace XrsVerif.Jenks
open XrsVerif.Bin

/-- `sum` of `c` elements starting at `i` -/
def S (x : Nat → Rat) (i : Nat) : Nat → Rat
  | 0 => 0
  | c+1 => S x i c + x (i + c)

/-- `sum_squares` of `c` elements starting at `i` -/
def Q (x : Nat → Rat) (i : Nat) : Nat → Rat
  | 0 => 0
  | c+1 => Q x i c + x (i + c) * x (i + c)

/-- the `variance` variable when the inner loop has consumed `data[i .. l-1]`:
    sum of squared deviations from the mean of that slice -/
def ssd (x : Nat → Rat) (i l : Nat) : Rat :=
  Q x i (l - i) - (S x i (l - i) * S x i (l - i)) / ((l - i : Nat) : Rat)

/-- `if var_combinations[l, j] >= new_variance: take it`; `none` is the initial `inf` -/
def step (cur : Option (Rat × Nat)) (cand : Rat × Nat) : Option (Rat × Nat) :=
  match cur with
  | none => some cand
  | some (v, b) => if v ≥ cand.1 then some cand else some (v, b)

/-- the candidates of cell (l, j) in the order the code meets them: `i4 = l-1, …, 1`;
    each is (`new_variance`, `lower_class_limit = i4 + 1`) -/
def cands (x : Nat → Rat) (vprev : Nat → Rat) (l : Nat) : List (Rat × Nat) :=
  (List.range (l - 1)).map fun m => (ssd x (l - 1 - m) l + vprev (l - 1 - m), l - 1 - m + 1)

def cellVL (x : Nat → Rat) (vprev : Nat → Rat) (l : Nat) : Rat × Nat :=
  ((cands x vprev l).foldl step none).getD (0, 0)

/-- column `j = 1`: one class -/
def firstCol (x : Nat → Rat) (n : Nat) : List (Rat × Nat) :=
  (List.range (n + 1)).map fun l => if l = 0 then (0, 0) else if l = 1 then (0, 1) else (ssd x 0 l, 1)

/-- column `j + 1` from column `j` -/
def nextCol (x : Nat → Rat) (n : Nat) (prev : List (Rat × Nat)) : List (Rat × Nat) :=
  (List.range (n + 1)).map fun l =>
    if l = 0 then (0, 0) else if l = 1 then (0, 1) else cellVL x (fun i => (prev.getD i (0, 0)).1) l

/-- `col x n j` is column `j + 1` of both matrices (pairs `(V[l][j+1], L[l][j+1])`, `l = 0..n`) -/
def col (x : Nat → Rat) (n : Nat) : Nat → List (Rat × Nat)
  | 0 => firstCol x n
  | j+1 => nextCol x n (col x n j)

/-- `var_combinations[l][j]`, `j >= 1` -/
def V (x : Nat → Rat) (n j l : Nat) : Rat := ((col x n (j - 1)).getD l (0, 0)).1
/-- `lower_class_limits[l][j]`, `j >= 1` -/
def L (x : Nat → Rat) (n j l : Nat) : Nat := ((col x n (j - 1)).getD l (0, 0)).2

/-- the class sizes found by walking `lower_class_limits` back from (l, j), last class first -/
def back (x : Nat → Rat) (n : Nat) : Nat → Nat → List Nat
  | 0, l => [l]
  | j+1, l =>
    if l ≤ 1 then [l]
    else
      let b := L x n (j + 2) l          -- first element (1-based) of the last class
      (l - (b - 1)) :: back x n j (b - 1)

/-- within-class sum of squared deviations of a partition given by its class sizes, last class first,
    of the first `l` elements -/
def cost (x : Nat → Rat) : Nat → List Nat → Rat
  | _, [] => 0
  | l, s :: rest => ssd x (l - s) l + cost x (l - s) rest

/-- the `while count_num > 1` loop of `_run_jenks`, `count_num = j + 1`, current row `kk`:
    `kclass[count_num - 1] = data[L[kk][count_num] - 2]; kk = L[kk][count_num] - 1`.
    `none` when the walk would leave the table (`L - 2 < 0`; the real code then wraps a negative index) -/
def kgo (x : Nat → Rat) (n : Nat) : Nat → Nat → List Rat → Option (List Rat)
  | 0, _, acc => some acc
  | j+1, kk, acc =>
    let b := L x n (j + 2) kk
    if b < 2 then none else kgo x n j (b - 1) (x (b - 2) :: acc)

/-- `_run_jenks` on sorted data: `kclass` (k+1 entries: `data[0]`, the k-1 interior breaks, `data[-1]`) -/
def kclass (xs : List Rat) (k : Nat) : Option (List Rat) :=
  let n := xs.length
  let x : Nat → Rat := fun i => xs.getD i 0
  if n = 0 ∨ k = 0 then none
  else (kgo x n (k - 1) n [x (n - 1)]).map fun t => x 0 :: t

/-- the largest element of every class of a partition (class sizes, last class first), ascending -/
def uppers (x : Nat → Rat) : Nat → List Nat → List Rat
  | _, [] => []
  | l, s :: rest => uppers x (l - s) rest ++ [x (l - 1)]

/-- ascending sort (`data.sort()`), duplicates kept -/
def insertS (a : Rat) : List Rat → List Rat
  | [] => [a]
  | b :: bs => if a ≤ b then a :: b :: bs else b :: insertS a bs
def sortQ (l : List Rat) : List Rat := l.foldr insertS []

/-- `_run_natural_break` + `_bin` (numpy backend).  `sample` are the finite sample cells (all finite cells
    when `num_sample` is None or not smaller than the raster).  `rnd` is the rounding applied when a break is
    stored in the `kclass` / `bins` array; the repaired code keeps the data's precision (`rnd = id`).
    In both branches the last bin is the raster maximum (the fallback branch adds it to the distinct sample
    values, the Jenks branch overwrites the last break with it). -/
def naturalBreaks (sh : Shape) (rnd : Rat → Rat) (cells : List (Ext Rat)) (sample : List Rat) (k : Nat) : Res :=
  match maxQ (finiteVals cells) with
  | none => .err "ValueError"
  | some mx =>
    let uv := uniq sample
    let uvk := uv.length
    if uvk < k then
      let bins := insertU mx uv        -- np.unique(np.append(uv, max_data))
      .ok (cells.map (cellS sh (bins.map .fin) (classIds bins.length))) bins
    else
      match kclass (sortQ sample) k with
      | none => .err "degenerate"
      | some kc =>
        let bins := setLast ((kc.drop 1).map rnd) (rnd mx)
        .ok (cells.map (cellS sh (bins.map .fin) (classIds uvk))) bins

end XrsVerif.Jenks
