/-
  Model of `xrspatial/pathfinding.py` (A* search on a raster), Mathlib-free and executable.

  Source map (pathfinding.py of /repo):
    `pixelId`      <- `_get_pixel_id`        (after repair D6: nearest centre, not truncation)
    `findNearest`  <- `_find_nearest_pixel`  (after repair D7: every crossable cell is a candidate)
    `minCostOpen`  <- `_min_cost_pixel_id`   (row-major scan, strict `<`, sentinel `(h+w)^2`)
    `relax`        <- body of the neighbour loop of `_a_star_search`
    `loop`         <- the `while num_open > 0` loop (fuel = number of cells + 1, see `loop_fuel_ok`)
    `walk`/`render`<- `_reconstruct_path`
    `runCells`     <- `a_star_search` after the coordinate conversion

  Costs live in an arbitrary type `C` with the operations of `Ops C`; nothing else is assumed, so
  the same definitions are (a) executed by the driver over IEEE doubles (`Float`, the very
  operations numba performs) and over exact numbers `a + b√2` (`Q2`), and (b) reasoned about over
  an arbitrary linearly ordered field with a constant `s`, `s*s = 2` (Proofs/AStar*.lean).
-/
namespace XrsVerif.AStar

/-- a raster cell `(row, column)`; neighbours are reached by integer offsets, hence `Int` -/
abbrev Cell := Int × Int

def upd {α : Type} (f : Cell → α) (c : Cell) (v : α) : Cell → α := fun c' => if c' = c then v else f c'

/-- what the search needs to know about costs -/
structure Ops (C : Type) where
  zero : C
  add : C → C → C
  /-- `lt a b` is the float comparison `a < b` -/
  lt : C → C → Bool
  /-- `_distance` between two neighbouring cells (the length of one step) -/
  step : Cell → Cell → C
  /-- `_heuristic cell goal` -/
  heur : Cell → Cell → C
  /-- the "very big number" `(height + width) ** 2` of `_min_cost_pixel_id` -/
  big : Nat → Nat → C

/-- the constant data of one search -/
structure Env (C : Type) where
  ops : Ops C
  h : Nat
  w : Nat
  /-- `not _is_not_crossable(data[c], barriers)` -/
  cross : Cell → Bool
  /-- `zip(neighbor_ys, neighbor_xs)` in source order -/
  nbrs : List Cell
  start : Cell
  goal : Cell

def inside (h w : Nat) (c : Cell) : Bool :=
  decide (0 ≤ c.1) && decide (c.1 < (h : Int)) && decide (0 ≤ c.2) && decide (c.2 < (w : Int))

/-- all cells in row-major order (the order of every `for i in range(height): for j in range(width)`) -/
def cells (h w : Nat) : List Cell :=
  (List.range h).flatMap fun (i : Nat) => (List.range w).map fun (j : Nat) => ((i : Int), (j : Int))

/-- `_neighborhood_structure`: `(dy, dx)` in the order `zip(neighbor_ys, neighbor_xs)` yields them -/
def nbrs8 : List Cell := [(-1, -1), (0, -1), (1, -1), (-1, 0), (1, 0), (-1, 1), (0, 1), (1, 1)]
def nbrs4 : List Cell := [(0, -1), (-1, 0), (1, 0), (0, 1)]
def nbrsOf (connectivity : Nat) : List Cell := if connectivity = 8 then nbrs8 else nbrs4

structure St (C : Type) where
  isOpen : Cell → Bool
  isClosed : Cell → Bool
  /-- `d_from_start` -/
  g : Cell → C
  /-- `cost` = `d_from_start` + heuristic -/
  f : Cell → C
  /-- `(parent_ys, parent_xs)`; `none` is `(NONE, NONE)` -/
  parent : Cell → Option Cell

variable {C : Type}

/-- state before the loop: parent of start is start; start is opened only when crossable -/
def init (e : Env C) : St C :=
  let par : Cell → Option Cell := upd (fun _ => none) e.start (some e.start)
  if e.cross e.start then
    { isOpen := upd (fun _ => false) e.start true
      isClosed := fun _ => false
      g := fun _ => e.ops.zero
      f := upd (fun _ => e.ops.zero) e.start (e.ops.add e.ops.zero (e.ops.heur e.start e.goal))
      parent := par }
  else
    { isOpen := fun _ => false, isClosed := fun _ => false, g := fun _ => e.ops.zero,
      f := fun _ => e.ops.zero, parent := par }

def minStep (e : Env C) (st : St C) (acc : Option Cell × C) (c : Cell) : Option Cell × C :=
  if st.isOpen c && e.ops.lt (st.f c) acc.2 then (some c, st.f c) else acc

/-- `_min_cost_pixel_id`: `none` is the `(NONE, NONE)` it returns when no open cell is below the sentinel -/
def minCostOpen (e : Env C) (st : St C) : Option Cell :=
  ((cells e.h e.w).foldl (minStep e st) (none, e.ops.big e.h e.w)).1

def anyOpen (e : Env C) (st : St C) : Bool := (cells e.h e.w).any st.isOpen

/-- one pass of the neighbour loop for the popped cell `u` and offset `off` -/
def relax (e : Env C) (u : Cell) (st : St C) (off : Cell) : St C :=
  let v : Cell := (u.1 + off.1, u.2 + off.2)
  if !inside e.h e.w v then st
  else if !e.cross v then st
  else if st.isClosed v then st
  else
    let d := e.ops.add (st.g u) (e.ops.step u v)
    if st.isOpen v && e.ops.lt (st.g v) d then st
    else
      { isOpen := upd st.isOpen v true
        isClosed := st.isClosed
        g := upd st.g v d
        f := upd st.f v (e.ops.add d (e.ops.heur v e.goal))
        parent := upd st.parent v (some u) }

/-- pop `u`: off the open list, onto the closed list -/
def close (st : St C) (u : Cell) : St C :=
  { st with isOpen := upd st.isOpen u false, isClosed := upd st.isClosed u true }

def expand (e : Env C) (st : St C) (u : Cell) : St C := e.nbrs.foldl (relax e u) (close st u)

inductive LoopEnd (C : Type) where
  /-- the goal was popped -/
  | found (st : St C)
  /-- the open list ran empty -/
  | exhausted (st : St C)
  /-- `_min_cost_pixel_id` returned `(NONE, NONE)` although a cell is open -/
  | sentinel (st : St C)
  | fuel (st : St C)

def loop (e : Env C) : Nat → St C → LoopEnd C
  | 0, st => .fuel st
  | n + 1, st =>
    if !anyOpen e st then .exhausted st
    else match minCostOpen e st with
      | none => .sentinel st
      | some u => if u = e.goal then .found (close st u) else loop e n (expand e st u)

/-- `_reconstruct_path`: follow the parents from `cur` to `start`; the cells visited, `cur` first -/
def walk (parent : Cell → Option Cell) (start : Cell) : Nat → Cell → Option (List Cell)
  | 0, _ => none
  | n + 1, cur =>
    if cur = start then some [start]
    else match parent cur with
      | none => none
      | some p => (walk parent start n p).map (cur :: ·)

inductive Outcome (C : Type) where
  /-- the path cells (goal first, start last) and `d_from_start` -/
  | path (chain : List Cell) (g : Cell → C)
  /-- every cell NaN -/
  | noPath
  /-- the model left the behaviour it describes (shown impossible for exact costs) -/
  | anomaly (what : String)

/-- the output raster: `none` is NaN -/
def Outcome.raster : Outcome C → Cell → Option C
  | .path chain g, c => if c ∈ chain then some (g c) else none
  | .noPath, _ => none
  | .anomaly _, _ => none

/-- `_a_star_search` -/
def search (e : Env C) : Outcome C :=
  match loop e (e.h * e.w + 1) (init e) with
  | .found st =>
    match walk st.parent e.start (e.h * e.w) e.goal with
    | some chain => .path chain st.g
    | none => .anomaly "reconstruct"
  | .exhausted _ => .noPath
  | .sentinel _ => .anomaly "sentinel"
  | .fuel _ => .anomaly "fuel"

/-! ### snapping -/

def sqDist (a b : Cell) : Int := (a.2 - b.2) * (a.2 - b.2) + (a.1 - b.1) * (a.1 - b.1)

def nearStep (cross : Cell → Bool) (p : Cell) (acc : Option (Cell × Int)) (c : Cell) : Option (Cell × Int) :=
  if cross c then
    match acc with
    | none => some (c, sqDist c p)
    | some (_, m) => if sqDist c p < m then some (c, sqDist c p) else acc
  else acc

/-- `_find_nearest_pixel` (repaired): the first crossable cell, in row-major order, at minimum
    distance; distances are compared through their squares (exact for integers) -/
def findNearest (h w : Nat) (cross : Cell → Bool) (p : Cell) : Option Cell :=
  if cross p then some p else ((cells h w).foldl (nearStep cross p) none).map (·.1)

/-- `a_star_search` once start and goal are pixel indices inside the raster -/
def runCells (ops : Ops C) (h w : Nat) (cross : Cell → Bool) (connectivity : Nat)
    (sp gp : Cell) (snapStart snapGoal : Bool) : Outcome C :=
  let s? := if snapStart then findNearest h w cross sp else some sp
  let g? := if snapGoal then findNearest h w cross gp else some gp
  match s?, g? with
  | some s, some g => search { ops, h, w, cross, nbrs := nbrsOf connectivity, start := s, goal := g }
  | _, _ => .noPath

/-! ### coordinates -/

def absR (q : Rat) : Rat := if q < 0 then -q else q

/-- `_get_pixel_id` for one axis (repaired): `int(abs(p - coords[0]) / cellsize + 0.5)` -/
def pixelId (c0 cellsize p : Rat) : Int := (absR (p - c0) / cellsize + 1 / 2).floor

/-- a cell or barrier value as the caller wrote it: NaN, ±∞ or an exact real number (whatever
    dtype the surface has and whatever Python numbers the barrier list holds) -/
inductive Val where
  | nan | pinf | ninf
  | fin (q : Rat)
  deriving DecidableEq

/-- `==` on exact values: NaN equals nothing, an infinity only itself -/
def Val.eq : Val → Val → Bool
  | .fin a, .fin b => a == b
  | .pinf, .pinf => true
  | .ninf, .ninf => true
  | _, _ => false

/-- `_is_not_crossable` on exact values: a cell is a barrier iff it is NaN or its value is one of
    the listed numbers (no dtype conversion of the list) -/
def notCrossableV (v : Val) (barriers : List Val) : Bool :=
  match v with
  | .nan => true
  | x => barriers.any (fun b => Val.eq x b)

/-! ### exact costs `a + b√2` with natural `a`, `b` (Dijkstra instance: heuristic 0) -/

abbrev Q2 := Nat × Nat

/-- `a + b√2 < c + d√2`, decided in integers -/
def Q2.lt (x y : Q2) : Bool :=
  let p : Int := (x.1 : Int) - y.1
  let q : Int := (y.2 : Int) - x.2
  -- p < q√2 ?
  if p < 0 then (if q ≥ 0 then true else decide (2 * q * q < p * p))
  else (if q ≤ 0 then false else decide (p * p < 2 * q * q))

def stepQ2 (a b : Cell) : Q2 := if a.1 = b.1 ∨ a.2 = b.2 then (1, 0) else (0, 1)

def opsQ2 : Ops Q2 where
  zero := (0, 0)
  add x y := (x.1 + y.1, x.2 + y.2)
  lt := Q2.lt
  step := stepQ2
  heur _ _ := (0, 0)
  big h w := ((h + w) * (h + w), 0)

/-- the operations numba performs, on IEEE doubles -/
def euclidF (a b : Cell) : Float :=
  Float.sqrt (Float.ofInt ((a.2 - b.2) * (a.2 - b.2) + (a.1 - b.1) * (a.1 - b.1)))

def opsFloat : Ops Float where
  zero := 0.0
  add x y := x + y
  lt x y := x < y
  step := euclidF
  heur := euclidF
  big h w := Float.ofNat ((h + w) * (h + w))

end XrsVerif.AStar
