import XrsVerif.Gen.Terrain
/-!
  C08 model: how a public terrain function (`slope`, `aspect`, `curvature`, `hillshade`) evaluates a raster:
  the *generated* wiring (Gen/Terrain.lean) applied to the *generated* kernel (Gen/Kernels.lean,
  Gen/Terrain.lean), plus the hand model of `utils.get_dataarray_resolution`.
  Mathlib-free (linked into the driver).
-/
namespace XrsVerif
open Gen

variable {F : Type} [Fl F]

/-- the scalars handed to the kernel: run the wrapper's scalar statements on the environment in which
    the two resolution names are bound to (x cell size, y cell size) and the rest to the public scalar
    parameters, then evaluate each argument expression -/
def Gen.TerrainWiring.env (w : TerrainWiring) (resx resy : F) (pub : String → F) : String → F :=
  let env0 := setVar (setVar pub w.resX resx) w.resY resy
  let st := w.pre.exec (fun _ _ _ => Fl.nan) (fun _ => [])
    { env := env0, out := Fl.nan, halted := false, failed := none }
  fun n => match w.scalarArgs.find? (·.1 == n) with
    | some (_, e) => e.eval ⟨st.env, fun _ _ _ => Fl.nan, fun _ => []⟩
    | none => Fl.nan

/-- one output cell of the public function from the window `win dy dx` around it -/
def Gen.TerrainWiring.cell (w : TerrainWiring) (resx resy : F) (pub : String → F)
    (win : Int → Int → F) : F :=
  w.kernel.cell (w.env resx resy pub) (fun _ dy dx => win dy dx) (fun _ => [])

/-- the whole output raster -/
def Gen.TerrainWiring.run (w : TerrainWiring) (rows cols : Nat) (resx resy : F) (pub : String → F)
    (get : Int → Int → F) : List (List F) :=
  w.kernel.run rows cols (w.env resx resy pub) (fun _ i j => get i j) (fun _ => [])

namespace Terrain

/-- what the `res` attribute holds -/
inductive ResAttr (F : Type) where
  | pair (x y : F)      -- tuple / list / ndarray of two python numbers
  | scalar (c : F)      -- one python number
  | other               -- absent or anything else
  deriving Repr

/-- `calc_res`: the generated quotients evaluated on the coordinate extremes and the shape -/
def calcRes (xmin xmax ymin ymax h w : F) : F × F :=
  let env : String → F := fun n =>
    if n = "xmin" then xmin else if n = "xmax" then xmax else if n = "ymin" then ymin
    else if n = "ymax" then ymax else if n = "h" then h else if n = "w" then w else Fl.nan
  let k : Ctx F := ⟨env, fun _ _ _ => Fl.nan, fun _ => []⟩
  (Gen.calc_res_x.eval k, Gen.calc_res_y.eval k)

/-- hand model of `utils.get_dataarray_resolution`: (x cell size, y cell size) -/
def resolution (attr : ResAttr F) (xmin xmax ymin ymax h w : F) : F × F :=
  match attr with
  | .pair x y => (x, y)
  | .scalar c => (c, c)
  | .other => calcRes xmin xmax ymin ymax h w

end Terrain
end XrsVerif
