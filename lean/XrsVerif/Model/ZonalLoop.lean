import XrsVerif.Model.Zonal
/-
  Model/ZonalLoop.lean -- a small loop language for the index loops of zonal.py and its interpreter.

  `_strides` is a numba loop nest over two read-only arrays, natural-number scalars and one output
  array of integers.  harness/facts_zonal.py translates its body statement by statement into an
  `LProg` (`Gen.Zonal.stridesProg`); `LProg.run` executes it.  Props/C02.lean proves that the generated
  program computes the hand model `strides` for all inputs (`gen_strides_eq_model`).
  No Mathlib import.
-/
namespace XrsVerif.Zonal

/-- natural-number expressions: scalars, literals, `a + b`, `len(arr)` / `arr.shape[0]` -/
inductive NE where
  | var (v : String) | lit (n : Nat) | add (a b : NE) | len (arr : String)
  deriving Repr, DecidableEq

/-- conditions: `a < b`, `arr1[i] == arr2[j]`, short-circuit `and` -/
inductive BE where
  | lt (a b : NE)
  | eqAt (a1 : String) (i : NE) (a2 : String) (j : NE)
  | and (a b : BE)
  deriving Repr, DecidableEq

/-- statements -/
inductive LS where
  | assign (v : String) (e : NE)                  -- v = e   (v += k is v = v + k)
  | store (i : NE) (e : NE)                       -- out[i] = e
  | whileDo (c : BE) (body : List LS)
  | forRange (v : String) (n : NE) (body : List LS)   -- for v in range(n)
  deriving Repr

/-- a translated function: the size of the output array, the statements, `ok = false` when some
    statement was not understood -/
structure LProg where
  outLen : NE
  body : List LS
  ok : Bool
  deriving Repr

structure LState where
  env : String → Nat
  out : List Nat

variable {κ : Type} [DecidableEq κ]

def NE.eval (arrs : String → List κ) (env : String → Nat) : NE → Nat
  | .var v => env v
  | .lit n => n
  | .add a b => a.eval arrs env + b.eval arrs env
  | .len a => (arrs a).length

/-- an out-of-range read compares unequal (the source guards every read with a bound test first) -/
def BE.eval (arrs : String → List κ) (env : String → Nat) : BE → Bool
  | .lt a b => decide (a.eval arrs env < b.eval arrs env)
  | .eqAt a1 i a2 j =>
    match (arrs a1)[i.eval arrs env]?, (arrs a2)[j.eval arrs env]? with
    | some x, some y => decide (x = y)
    | _, _ => false
  | .and a b => a.eval arrs env && b.eval arrs env

def setEnv (env : String → Nat) (v : String) (x : Nat) : String → Nat :=
  fun w => if w = v then x else env w

mutual
/-- `fuel` bounds the total number of loop iterations (the interpreter stops when it runs out) -/
def LS.exec (arrs : String → List κ) : Nat → LS → LState → LState
  | _, .assign v e, s => { s with env := setEnv s.env v (e.eval arrs s.env) }
  | _, .store i e, s => { s with out := s.out.set (i.eval arrs s.env) (e.eval arrs s.env) }
  | 0, .whileDo _ _, s => s
  | fuel + 1, .whileDo c body, s =>
    if c.eval arrs s.env then LS.exec arrs fuel (.whileDo c body) (execList arrs fuel body s) else s
  | fuel, .forRange v n body, s =>
    (List.range (n.eval arrs s.env)).foldl (fun st i => execList arrs fuel body { st with env := setEnv st.env v i }) s
def execList (arrs : String → List κ) : Nat → List LS → LState → LState
  | _, [], s => s
  | fuel, st :: rest, s => execList arrs fuel rest (LS.exec arrs fuel st s)
end

/-- run a program on the arrays: every scalar starts at 0, the output array is zero-filled -/
def LProg.run (p : LProg) (arrs : String → List κ) (fuel : Nat) : List Nat :=
  (execList arrs fuel p.body { env := fun _ => 0, out := List.replicate (p.outLen.eval arrs (fun _ => 0)) 0 }).out

end XrsVerif.Zonal
