import XrsVerif.Model.Zonal
/-
  Model/ZonalDask.lean -- hand model of the dask path of `xrspatial.zonal.stats`
  (zonal.py `_DASK_BLOCK_STATS`, `_DASK_STATS`, `_dask_mean/_std/_var`, `_single_stats_func`,
  `_stats_dask_numpy`) and of the block decomposition both dask paths (stats, crosstab) use.

  * a chunking is a pair of chunk-size lists (rows, columns); `gridBlocks` lists the blocks in the
    order of `arr.to_delayed().ravel()`, each block as the flat (row-major) indices of its cells
    in the block's own row-major order;
  * `pairBlocks` is `zip(zones_blocks, values_blocks)`; the flag `align` says whether the values
    were rechunked onto the zones chunking first (`validate_arrays` in `stats`; missing for 2-D
    `crosstab` on the unrepaired tree, defect D12);
  * every block runs the position-faithful `sortAndStride` of Model/Zonal.lean with the *global*
    `unique_zones`; the per-block partial results are stacked and reduced over the block axis
    by the combiners of `_DASK_STATS` (`Comb`, read from the source by harness/facts_zonal.py).
  No Mathlib import.
-/
namespace XrsVerif.Zonal

variable {κ : Type}

/-! ### blocks -/

/-- `[(offset, size)]` of a list of chunk sizes -/
def chunkRanges : Nat → List Nat → List (Nat × Nat)
  | _, [] => []
  | off, c :: cs => (off, c) :: chunkRanges (off + c) cs

/-- flat indices (row length `w`) of the block `rows r × cols c`, in the block's row-major order -/
def blockCells (w : Nat) (r c : Nat × Nat) : List Nat :=
  (List.range' r.1 r.2).flatMap (fun i => (List.range' c.1 c.2).map (fun j => i * w + j))

/-- `arr.to_delayed().ravel()` -/
def gridBlocks (w : Nat) (rs cs : List Nat) : List (List Nat) :=
  (chunkRanges 0 rs).flatMap (fun r => (chunkRanges 0 cs).map (fun c => blockCells w r c))

/-- one pair of `zip(zones_blocks, values_blocks)` together with what `np.argsort` returned for
    the zones block (block-local indices) -/
structure Block where
  zc : List Nat        -- global flat indices of the zones block
  vc : List Nat        -- global flat indices of the values block
  perm : List Nat
  deriving Repr

/-- `values.ravel()[sorted_indices]` raises IndexError when the values block is too short -/
def Block.ok (b : Block) : Bool := b.zc.length ≤ b.vc.length

def Block.fn {α : Type} (cells : List Nat) (f : Nat → α) : Nat → α := fun j => f (cells.getD j 0)

/-- `zip(zones_blocks, values_blocks)`; `perms` are the per-block argsort results -/
def pairBlocks (align : Bool) (w : Nat) (zch vch : List Nat × List Nat) (perms : List (List Nat)) : List Block :=
  let zb := gridBlocks w zch.1 zch.2
  let vb := if align then zb else gridBlocks w vch.1 vch.2
  ((zb.zip vb).zip perms).map (fun p => { zc := p.1.1, vc := p.1.2, perm := p.2 })

/-! ### per-block statistics and their combiners -/

section stats
variable {F : Type} [Add F] [Sub F] [Mul F] [Div F] [Zero F] [NatCast F] [LT F] [DecidableLT F] [DecidableEq F]

/-- keys of `_DASK_BLOCK_STATS` -/
inductive BStat where
  | max | min | sum | count | sumSquares
  deriving DecidableEq, Repr, Inhabited

def BStat.eval : BStat → List F → F
  | .max, l => rmax l
  | .min, l => rmin l
  | .sum, l => rsum l
  | .count, l => rcount l
  | .sumSquares, l => rsumsq l

def BStat.func (s : BStat) : List (X F) → Option F :=
  fun l => some (s.eval (l.filterMap X.toFin?))

/-- shapes of the `_DASK_STATS` lambdas (reduction over the block axis of the stacked partials) -/
inductive Comb where
  | nanmax        -- np.nanmax(b, axis=0)
  | nanmin        -- np.nanmin(b, axis=0)
  | nansum        -- np.nansum(b, axis=0): 0 when every block is NaN   (defect D2 for sum / count / sum_squares)
  | nansumNaN     -- NaN when every block is NaN, else the nansum      (the repaired shape)
  | unknown
  deriving DecidableEq, Repr, Inhabited

/-- fold that ignores NaN (`none`); NaN when there is nothing else -/
def nanFold (op : F → F → F) : List (Option F) → Option F
  | [] => none
  | none :: xs => nanFold op xs
  | some a :: xs =>
    match nanFold op xs with
    | none => some a
    | some b => some (op a b)

def Comb.eval : Comb → List (Option F) → Option F
  | .nanmax, l => nanFold (fun a b => if a < b then b else a) l
  | .nanmin, l => nanFold (fun a b => if b < a then b else a) l
  | .nansum, l => some ((nanFold (· + ·) l).getD 0)
  | .nansumNaN, l => nanFold (· + ·) l
  | .unknown, _ => none

/-- IEEE division restricted to what can occur here: NaN operands and 0/0 give NaN -/
def oDiv : Option F → Option F → Option F
  | some a, some b => if b = 0 then none else some (a / b)
  | _, _ => none
def oSub : Option F → Option F → Option F
  | some a, some b => some (a - b)
  | _, _ => none
def oMul : Option F → Option F → Option F
  | some a, some b => some (a * b)
  | _, _ => none

/-- `_dask_mean(sums, counts)` -/
def daskMean (s c : Option F) : Option F := oDiv s c
/-- `_dask_var(sum_squares, squared_sum, n)` -/
def daskVar (ss sq n : Option F) : Option F := oDiv (oSub ss (oDiv sq n)) n
/-- `_dask_std(sum_squares, squared_sum, n)` -/
def daskStd (sqrt : F → F) (ss sq n : Option F) : Option F := (daskVar ss sq n).map sqrt

/-- `zip` of three columns through a function -/
def zipWith3' {α β γ δ : Type} (f : α → β → γ → δ) : List α → List β → List γ → List δ
  | a :: as, b :: bs, c :: cs => f a b c :: zipWith3' f as bs cs
  | _, _, _ => []

variable [LT κ] [DecidableLT κ] [DecidableEq κ]

/-- `_single_stats_func` on one block -/
def blockStats (strip : Bool) (zones : Nat → X κ) (values : Nat → X F) (valid : X F → Bool)
    (uniq : List κ) (sel : κ → Bool) (s : BStat) (b : Block) : List (Option F) :=
  calcStats valid none s.func
    (sortAndStride strip (Block.fn b.zc zones) (Block.fn b.vc values) uniq b.perm) uniq sel

/-- one basis column of `_stats_dask_numpy`: stack the per-block results, reduce over the block axis -/
def basisCol (strip : Bool) (comb : BStat → Comb) (zones : Nat → X κ) (values : Nat → X F)
    (valid : X F → Bool) (uniq : List κ) (sel : κ → Bool) (blocks : List Block) (s : BStat) : List (Option F) :=
  let per := blocks.map (blockStats strip zones values valid uniq sel s)
  (List.range uniq.length).map (fun k => (comb s).eval (per.map (fun col => col.getD k none)))

/-- the columns of `stats_dict`: the four basis statistics as combined, mean / var / std through
    `_dask_mean`, `_dask_var`, `_dask_std` on `sum`, `count`, `sum_squares` and `sum ** 2` -/
def daskCol (sqrt : F → F) (basis : BStat → List (Option F)) : Stat → List (Option F)
  | .max => basis .max
  | .min => basis .min
  | .sum => basis .sum
  | .count => basis .count
  | .mean => List.zipWith daskMean (basis .sum) (basis .count)
  | .var => zipWith3' daskVar (basis .sumSquares) ((basis .sum).map (fun s => oMul s s)) (basis .count)
  | .std => zipWith3' (daskStd sqrt) (basis .sumSquares) ((basis .sum).map (fun s => oMul s s)) (basis .count)

/-- `if row['zone'] in zone_ids` (every row when `zone_ids` is None) -/
def keepRow : Option (List κ) → κ → Bool
  | none, _ => true
  | some r, u => r.contains u

/-- `_stats_dask_numpy(...).compute()`; `none` = the call raises -/
def daskStats (strip : Bool) (comb : BStat → Comb) (sqrt : F → F) (zones : Nat → X κ) (values : Nat → X F)
    (cells : List Nat) (valid : X F → Bool) (blocks : List Block) (stats : List Stat)
    (zoneIds : Option (List κ)) : Option (Table κ (Option F)) :=
  if blocks.any (fun b => !b.ok) then none else
  let uniq := uniqueZones zones cells
  let sel := fun u => (zoneIds.getD uniq).contains u       -- `unique_zones[i] in zone_ids` inside every block
  let basis := basisCol strip comb zones values valid uniq sel blocks
  let rows := uniq.filter (keepRow zoneIds)
  if zoneIds.isSome && rows.isEmpty then none      -- dd.concat([]) raises
  else some { zone := rows
              cols := stats.map (fun s =>
                ((uniq.zip (daskCol sqrt basis s)).filter (fun p => keepRow zoneIds p.1)).map Prod.snd) }

end stats

end XrsVerif.Zonal
