import XrsVerif.Core.KLang
import XrsVerif.Gen.Kernels
import XrsVerif.Gen.Focal
/-!
  Model of xrspatial/focal.py (`apply`, `focal_stats`, `mean`, `hotspots`) and
  xrspatial/convolution.py (`convolution_2d`, `custom_kernel`) -- property C09.

  * Mathlib-free and executable: the driver (Driver/Focal.lean) runs these definitions at `Float`;
    Props/C09.lean proves the property about the *same* definitions (at every `Fl` instance where
    only the index bookkeeping matters, at `NV K` where arithmetic matters).
  * Every index expression, loop bound, guard and table comes from `Gen/Focal.lean`, which
    `harness/facts_focal.py` regenerates from /repo's current source on every run.  The loops are
    folds in the source's iteration order; the gather buffer of `_apply_numpy` is threaded through
    the whole raster loop exactly as the source's single `kernel_values` allocation is.
  * numpy reductions (`np.nanmean` ...) are external calls: hand-written below, validated by the
    correspondence run.  Float casts (`astype(np.float32)`) are the identity here.
-/
namespace XrsVerif.Focal
open XrsVerif XrsVerif.Gen.Focal

variable {F : Type} [Fl F]

/-- `range(lo, hi)` over the integers -/
def intRange (lo hi : Int) : List Int := (List.range (hi - lo).toNat).map (fun (k : Nat) => lo + (k : Int))

/-- a 2-D array seen as a function of its (row, column) index -/
abbrev Arr (F : Type) := Int → Int → F

def Arr.set (b : Arr F) (i j : Int) (v : F) : Arr F := fun i' j' => if i' = i ∧ j' = j then v else b i' j'

def nanArr : Arr F := fun _ _ => Fl.nan

/-- row-major list of all (row, column) pairs of an `r × c` array -/
def allCells (r c : Nat) : List (Int × Int) :=
  (List.range r).flatMap fun (y : Nat) => (List.range c).map fun (x : Nat) => ((y : Int), (x : Int))

/-- the first `r × c` entries of a buffer as nested rows: what a reducer receives -/
def windowOf (b : Arr F) (r c : Nat) : List (List F) :=
  (List.range r).map fun (a : Nat) => (List.range c).map fun (j : Nat) => b (a : Int) (j : Int)

/-! ### numpy's NaN-ignoring reductions (over the flattened window, row-major order) -/

def valid (w : List F) : List F := w.filter fun v => !(Fl.isnan v)

def fsum (l : List F) : F := l.foldl Fl.add (Fl.lit 0 1)

def natLit (n : Nat) : F := Fl.lit (n : Int) 1

def nansum (w : List F) : F := fsum (valid w)

/-- `np.nanmean`: 0/0 = NaN for an all-NaN window -/
def nanmean (w : List F) : F := Fl.div (nansum w) (natLit (valid w).length)

def fmaxL : List F → F
  | [] => Fl.nan
  | v :: vs => vs.foldl (fun m x => if Fl.lt m x then x else m) v

def fminL : List F → F
  | [] => Fl.nan
  | v :: vs => vs.foldl (fun m x => if Fl.lt x m then x else m) v

def nanmax (w : List F) : F := fmaxL (valid w)
def nanmin (w : List F) : F := fminL (valid w)

/-- `np.nanvar` (population variance, ddof = 0) -/
def nanvar (w : List F) : F :=
  let vs := valid w
  let m := nanmean w
  Fl.div (fsum (vs.map fun v => Fl.mul (Fl.sub v m) (Fl.sub v m))) (natLit vs.length)

def nanstd (w : List F) : F := Fl.sqrt (nanvar w)

/-- the numpy expression a `focal._calc_*` reducer returns (names as extracted by facts_focal.py) -/
def npReducer : String → Option (List F → F)
  | "nanmean" => some nanmean
  | "nansum" => some nansum
  | "nanmax" => some nanmax
  | "nanmin" => some nanmin
  | "nanvar" => some nanvar
  | "nanstd" => some nanstd
  | "nanmax-nanmin" => some fun w => Fl.sub (nanmax w) (nanmin w)
  | _ => none

/-- the reducer `focal_stats` uses for a stat name: the generated table, then the numpy function -/
def statReducer (name : String) : Option (List F → F) :=
  ((focal_stats_table.find? (·.1 == name)).map (·.2)).bind npReducer

/-! ### `focal._apply_numpy` -/

/-- one iteration of the innermost gather loop -/
def applyStep (data kernel : Arr F) (v : ApplyVars) (buf : Arr F) : Arr F :=
  if apply_in_bounds v then
    let t := apply_test_idx v
    if Fl.eq (kernel t.1 t.2) (Fl.lit apply_test_val 1) then
      let s := apply_store_idx v
      let r := apply_read_idx v
      buf.set s.1 s.2 (data r.1 r.2)
    else buf
  else buf

def applyVars (rows cols krows kcols : Nat) (y x : Int) : ApplyVars :=
  { rows := rows, cols := cols, krows := krows, kcols := kcols,
    hrows := apply_hrows krows kcols, hcols := apply_hcols krows kcols, y := y, x := x, ky := 0, kx := 0 }

/-- the two gather loops for output cell (y, x), starting from buffer `buf0` -/
def applyGather (data kernel : Arr F) (rows cols krows kcols : Nat) (buf0 : Arr F) (y x : Int) : Arr F :=
  let v0 := applyVars rows cols krows kcols y x
  (intRange (apply_ky_lo v0) (apply_ky_hi v0)).foldl (fun b ky =>
    let v1 := { v0 with ky := ky }
    (intRange (apply_kx_lo v1) (apply_kx_hi v1)).foldl (fun b kx =>
      applyStep data kernel { v1 with kx := kx } b) b) buf0

/-- the raster loop: the gather buffer is allocated once and (per the generated fact) reset to NaN at
    the start of every cell, or not -/
def applyCells (data kernel : Arr F) (rows cols krows kcols : Nat) (func : List (List F) → F) :
    List (Int × Int) → Arr F → List F
  | [], _ => []
  | (y, x) :: rest, prev =>
    let b0 : Arr F := if apply_fill_each_step then nanArr else prev
    let b1 := applyGather data kernel rows cols krows kcols b0 y x
    func (windowOf b1 krows kcols) :: applyCells data kernel rows cols krows kcols func rest b1

/-- `_apply_numpy(data, kernel, func)`: row-major list of the `rows * cols` outputs.
    The buffer is `np.zeros_like(kernel)` before the first cell. -/
def applyFlat (data kernel : Arr F) (rows cols krows kcols : Nat) (func : List (List F) → F) : List F :=
  applyCells data kernel rows cols krows kcols func (allCells rows cols) (fun _ _ => Fl.lit 0 1)

/-- `custom_kernel`'s shape test (the ndarray test is a property of the caller's object) -/
def kernelAccepted (krows kcols : Nat) : Bool := !(custom_kernel_rejects krows kcols)

/-- `focal.apply`: kernel validation, then `_apply_numpy` -/
def apply (data kernel : Arr F) (rows cols krows kcols : Nat) (func : List (List F) → F) :
    Except String (List F) :=
  if apply_validates_kernel && !(kernelAccepted krows kcols) then .error "ValueError"
  else .ok (applyFlat data kernel rows cols krows kcols func)

/-- `focal.focal_stats`: one `apply` per requested name, stacked in request order -/
def focalStats (data kernel : Arr F) (rows cols krows kcols : Nat) (stats : List String) :
    Except String (List (List F)) :=
  if focal_stats_validates_kernel && !(kernelAccepted krows kcols) then .error "ValueError"
  else stats.mapM fun s =>
    match (statReducer s : Option (List F → F)) with
    | none => .error "KeyError"
    | some red =>
      if focal_stats_applies_each then apply data kernel rows cols krows kcols (fun w => red w.flatten)
      else .error "untranslated"

/-! ### `focal._mean_numpy` / `focal.mean` -/

/-- `_equal_numpy(a, b)`: the generated condition -/
def equalNumpy (a b : F) : Bool :=
  equal_numpy_cond.eval ⟨fun n => if n = equal_numpy_args.1 then a else if n = equal_numpy_args.2 then b else Fl.nan,
    fun _ _ _ => Fl.nan, fun _ => []⟩

def isExcluded (excludes : List F) (v : F) : Bool := excludes.any fun ex => equalNumpy v ex

/-- `data[r0:r1, c0:c1]` flattened row-major (indices already clipped by the generated bounds) -/
def sliceCells (data : Arr F) (r0 r1 c0 c1 : Int) : List F :=
  (intRange r0 r1).flatMap fun i => (intRange c0 c1).map fun j => data i j

def meanCell (data : Arr F) (rows cols : Nat) (excludes : List F) (y x : Int) : F :=
  let v : MeanVars := { rows := rows, cols := cols, y := y, x := x }
  if isExcluded excludes (data y x) then
    (if mean_excluded_pass_through then data y x else Fl.lit 0 1)
  else
    match (npReducer mean_reducer : Option (List F → F)) with
    | some red => red (sliceCells data (mean_row_lo v) (mean_row_hi v) (mean_col_lo v) (mean_col_hi v))
    | none => Fl.nan

/-- a concrete raster: nested rows -/
abbrev Rows (F : Type) := List (List F)

def Rows.get (g : Rows F) (y x : Int) : F :=
  if 0 ≤ y ∧ 0 ≤ x then ((g[y.toNat]?.getD [])[x.toNat]?).getD Fl.nan else Fl.nan

def meanPass (rows cols : Nat) (excludes : List F) (g : Rows F) : Rows F :=
  (List.range rows).map fun (y : Nat) => (List.range cols).map fun (x : Nat) => meanCell g.get rows cols excludes (y : Int) (x : Int)

/-- `p` applications of the one-pass operator -/
def meanIter (rows cols : Nat) (excludes : List F) : Nat → Rows F → Rows F
  | 0, g => g
  | p + 1, g => meanPass rows cols excludes (meanIter rows cols excludes p g)

/-- `focal.mean(agg, passes, excludes)`: the wrapper feeds the one-pass result back `passes` times -- when the
    generated fact `mean_iterates_passes` says that this is the shape of `mean()` (float raster; `for _ in
    range(passes): out = _mean(out, excludes)`; `DataArray(out, ...)`).  Any other shape of the wrapper is not
    modelled: the model then returns its input, which no theorem about `meanN` accepts. -/
def meanN (rows cols : Nat) (excludes : List F) (p : Nat) (g : Rows F) : Rows F :=
  if mean_iterates_passes then meanIter rows cols excludes p g else g

/-! ### `convolution._convolve_2d_numpy` -/

def convVars (nx ny nkx nky : Nat) (i j : Int) : ConvVars :=
  { nx := nx, ny := ny, nkx := nkx, nky := nky, wkx := conv_wkx nkx nky, wky := conv_wky nkx nky,
    i := i, j := j, ii := 0, jj := 0 }

/-- the products accumulated into `num` for output cell (i, j), in loop order -/
def convTerms (data kernel : Arr F) (nx ny nkx nky : Nat) (i j : Int) : List F :=
  let v0 := convVars nx ny nkx nky i j
  (intRange (conv_ii_lo v0) (conv_ii_hi v0)).flatMap fun ii =>
    let v1 := { v0 with ii := ii }
    (intRange (conv_jj_lo v1) (conv_jj_hi v1)).map fun jj =>
      let v := { v1 with jj := jj }
      let k := conv_kernel_idx v
      let d := conv_data_idx v
      Fl.mul (kernel k.1 k.2) (data d.1 d.2)

/-- is (i, j) visited by the two outer loops -/
def convInLoop (nx ny nkx nky : Nat) (i j : Int) : Bool :=
  let v := convVars nx ny nkx nky i j
  decide (conv_i_lo v ≤ i) && decide (i < conv_i_hi v) && decide (conv_j_lo v ≤ j) && decide (j < conv_j_hi v)

def convCell (data kernel : Arr F) (nx ny nkx nky : Nat) (i j : Int) : F :=
  if convInLoop nx ny nkx nky i j then fsum (convTerms data kernel nx ny nkx nky i j)
  else if conv_fill_nan then Fl.nan else Fl.lit 0 1

def convolve (data kernel : Arr F) (nx ny nkx nky : Nat) : List F :=
  (allCells nx ny).map fun c => convCell data kernel nx ny nkx nky c.1 c.2

/-! ### `focal._hotspots_numpy` -/

/-- all raster cells, row-major -/
def cellsOf (data : Arr F) (rows cols : Nat) : List F := (allCells rows cols).map fun c => data c.1 c.2

/-- `kernel / kernel.sum()` -/
def normKernel (kernel : Arr F) (krows kcols : Nat) : Arr F :=
  let s := fsum (cellsOf kernel krows kcols)
  fun a b => Fl.div (kernel a b) s

/-- the z-score raster, or the `ZeroDivisionError` -/
def hotspotsZ (data kernel : Arr F) (rows cols krows kcols : Nat) : Except String (List F) :=
  let all := cellsOf data rows cols
  let gm := nanmean all
  let gs := nanstd all
  if hotspots_zero_std_raises && Fl.eq gs (Fl.lit 0 1) then .error "ZeroDivisionError"
  else
    let k := if hotspots_kernel_normalised then normKernel kernel krows kcols else kernel
    .ok ((convolve data k rows cols krows kcols).map fun m => Fl.div (Fl.sub m gm) gs)

/-- the generated per-cell classifier applied to one z value -/
def hotspotClass (z : F) : F :=
  Gen.hotspots_cpu.cell (fun _ => Fl.nan) (fun _ _ _ => z) (fun _ => [])

def hotspots (data kernel : Arr F) (rows cols krows kcols : Nat) : Except String (List F) :=
  if hotspots_zscore then (hotspotsZ data kernel rows cols krows kcols).map fun zs => zs.map hotspotClass
  else .error "untranslated"

end XrsVerif.Focal
