/-
  C05 -- executable model of `xrspatial/viewshed.py` (no Mathlib: linked into the driver).

  Layers (DESIGN.md section 6, C05):
    L1  the sweep over an event/operation list with an abstract status *list*   (`visL`, `runL`)
        -- this is "the line-of-sight model the function implements", the O(n^2) reference;
    L2  the status structure as a functional binary tree with per-node
        (key, g0,g1,g2, a0,a1,a2, maxGrad, colour): the two-phase `query`, the two rotations,
        the leaf insertion with its upward propagation (`leafInsert`), the splice / successor-copy
        deletion with the code's augmentation repairs (`delCore`), and the sweep run over a tree
        (`runT`).
  Everything is polymorphic in the number type `α` (`<` only, plus `+ - * /` for the
  interpolation): the driver runs it at `Float` on the doubles produced by the real code, the
  theorems (Proofs/Viewshed*.lean, Props/C05.lean) are about the same definitions over any
  linearly ordered field.  The code's `a > b` is written `b < a`, `a == b` is `¬ a < b ∧ ¬ b < a`
  (the inputs are NaN-free), `max`/`min` are the code's if-chains.
  Colours only steer *which* rotations `_rb_insert_fixup` / `_rb_delete_fixup` perform (fact
  extracted from the source, Gen/ViewshedFacts.lean); they are carried but never read here.
-/
namespace XrsVerif.Viewshed

/-- one status node / active cell: squared distance, gradients and bearings at the entering
    corner (0), the centre (1) and the exiting corner (2) -/
structure Node (α : Type) where
  key : α
  g0 : α
  g1 : α
  g2 : α
  a0 : α
  a1 : α
  a2 : α
  deriving Repr, Inhabited, DecidableEq

inductive Tree (α : Type) where
  | nil : Tree α
  | node (l : Tree α) (n : Node α) (mx : α) (red : Bool) (r : Tree α) : Tree α
  deriving Repr, Inhabited, DecidableEq

inductive Dir where
  | L | R
  deriving Repr, DecidableEq, Inhabited

section
variable {α : Type} [LT α] [DecidableLT α] [LE α] [DecidableLE α]

/-- `if a > b: a else b` -/
def mx2 (a b : α) : α := if b < a then a else b
/-- python `min(a, b)` -/
def mn2 (a b : α) : α := if b < a then b else a
/-- `a == b` on NaN-free numbers -/
def eqv (a b : α) : Bool := !(decide (a < b)) && !(decide (b < a))

/-- `_find_value_min_value` -/
def minv (n : Node α) : α := mn2 (mn2 n.g0 n.g1) n.g2

/-- `TN_ANG_0 <= ang <= TN_ANG_2` -/
def spans (n : Node α) (ang : α) : Bool := decide (n.a0 ≤ ang) && decide (ang ≤ n.a2)

def Tree.toList : Tree α → List (Node α)
  | .nil => []
  | .node l n _ _ r => l.toList ++ n :: r.toList

def Tree.size : Tree α → Nat
  | .nil => 0
  | .node l _ _ _ r => l.size + 1 + r.size

/-- `tree_vals[i][TN_MAX_GRAD_ID]`, with the NIL row holding the sentinel `S` -/
def mxOf (S : α) : Tree α → α
  | .nil => S
  | .node _ _ mx _ _ => mx

/-- the true maximum of `minv` over a subtree (`S` for the empty tree) -/
def trueMax (S : α) : Tree α → α
  | .nil => S
  | .node l n _ _ r => mx2 (mx2 (trueMax S l) (minv n)) (trueMax S r)

/-- the recomputation used by rotations and deletion: max of the children's stored maxima and the
    node's own minimum gradient -/
def recomp (S : α) (l : Tree α) (n : Node α) (r : Tree α) : α :=
  mx2 (mx2 (mxOf S l) (mxOf S r)) (minv n)

def recompM (a b m : α) : α := mx2 (mx2 a b) m

/-! ### the query `_max_grad_in_status_struct` / `_find_max_value_within_key` -/

def Tree.contains (t : Tree α) (K : α) : Bool :=
  match t with
  | .nil => false
  | .node l n _ _ r => if K < n.key then l.contains K else if n.key < K then r.contains K else true

/-- phase 1: walk from the key's node to the root; whenever the walk comes up from a right child
    take the left sibling's stored maximum and the parent's own minimum gradient
    (written top-down along the search path; the operand order of the two `if x > max: max = x` updates is
    the code's, so that the generated program refines this definition over any `Fl`, ties and NaN included) -/
def short (S : α) : Tree α → α → α
  | .nil, _ => S
  | .node l n _ _ r, K =>
    if K < n.key then short S l K
    else if n.key < K then mx2 (minv n) (mx2 (mxOf S l) (short S r K))
    else S

/-- phase 2: the exact walk over all smaller keys, nearest first, with the early exit -/
def walk (ang g : α) (itp : Node α → α) : List (Node α) → α → α
  | [], acc => acc
  | n :: ns, acc =>
    if spans n ang then
      let acc' := mx2 (itp n) acc
      if g < acc' then acc' else walk ang g itp ns acc'
    else walk ang g itp ns acc

end

section
variable {α : Type} [LT α] [DecidableLT α] [LE α] [DecidableLE α] [Add α] [Sub α] [Mul α] [Div α]

/-- the node's gradient at bearing `ang`: linear from corner to centre to corner -/
def itp (n : Node α) (ang : α) : α :=
  if ang < n.a1 then n.g1 + (n.g0 - n.g1) * (n.a1 - ang) / (n.a1 - n.a0)
  else if n.a1 < ang then n.g1 + (n.g2 - n.g1) * (ang - n.a1) / (n.a2 - n.a1)
  else n.g1

/-- `_max_grad_in_status_struct(tree, root, K, ang, g)` -/
def query (S : α) (t : Tree α) (K ang g : α) : α :=
  if t.contains K then
    let s := short S t K
    if g < s then s
    else walk ang g (fun n => itp n ang) ((t.toList.filter (fun n => decide (n.key < K))).reverse) S
  else S

/-- the caller's test `max <= status_node[TN_GRAD_1]` -/
def visT (S : α) (t : Tree α) (K ang g : α) : Bool := decide (query S t K ang g ≤ g)

/-- L1: the line-of-sight rule itself -- no nearer active cell spanning the bearing has a greater
    interpolated gradient -/
def visL (st : List (Node α)) (K ang g : α) : Bool :=
  st.all fun n => !(decide (n.key < K) && spans n ang) || decide (itp n ang ≤ g)

end

section
variable {α : Type} [LT α] [DecidableLT α] [LE α] [DecidableLE α]

/-! ### rotations (`_left_rotate`, `_right_rotate`) with their augmentation repair -/

/-- left rotation at the root `x` of a subtree, `y = x.right` -/
def rotL (S : α) : Tree α → Tree α
  | .node xl xn _ xc (.node yl yn _ yc yr) =>
    let xm := recomp S xl xn yl
    .node (.node xl xn xm xc yl) yn (recompM xm (mxOf S yr) (minv yn)) yc yr
  | t => t

/-- right rotation at the root `y` of a subtree, `x = y.left` -/
def rotR (S : α) : Tree α → Tree α
  | .node (.node xl xn _ xc xr) yn _ yc yr =>
    let ym := recomp S xr yn yr
    .node xl xn (recompM (mxOf S xl) ym (minv xn)) xc (.node xr yn ym yc yr)
  | t => t

/-- apply `f` to the subtree reached by `path` -/
def atPath (f : Tree α → Tree α) : List Dir → Tree α → Tree α
  | [], t => f t
  | _ :: _, .nil => .nil
  | .L :: p, .node l n mx c r => .node (atPath f p l) n mx c r
  | .R :: p, .node l n mx c r => .node l n mx c (atPath f p r)

/-- recolouring (what the fixups do besides rotating) -/
def recolour (f : List Dir → Bool → Bool) : List Dir → Tree α → Tree α
  | _, .nil => .nil
  | p, .node l n mx c r => .node (recolour f (p ++ [.L]) l) n mx (f p c) (recolour f (p ++ [.R]) r)

/-- what `_rb_insert_fixup` / `_rb_delete_fixup` can do to a tree: any sequence of single rotations
    (each with the code's augmentation repair) and recolourings -/
inductive Rebal (S : α) : Tree α → Tree α → Prop where
  | refl (t : Tree α) : Rebal S t t
  | rotL (p : List Dir) {t u : Tree α} : Rebal S (atPath (rotL S) p t) u → Rebal S t u
  | rotR (p : List Dir) {t u : Tree α} : Rebal S (atPath (rotR S) p t) u → Rebal S t u
  | colour (f : List Dir → Bool → Bool) {t u : Tree α} : Rebal S (recolour f [] t) u → Rebal S t u

/-! ### insertion up to the fixup (`_insert_into_tree` before `_rb_insert_fixup`) -/

/-- returns the new subtree and whether the upward propagation loop is still running -/
def insCore (nn : Node α) : Tree α → Tree α × Bool
  | .nil => (.node .nil nn (minv nn) true .nil, true)
  | .node l n mx c r =>
    let v := minv nn
    if nn.key < n.key then
      let (l', p) := insCore nn l
      if p then
        let mx' := if mx < v then v else mx
        (.node l' n mx' c r, !(decide (v < mx')))
      else (.node l' n mx c r, false)
    else
      let (r', p) := insCore nn r
      if p then
        let mx' := if mx < v then v else mx
        (.node l n mx' c r', !(decide (v < mx')))
      else (.node l n mx c r', false)

def leafInsert (nn : Node α) (t : Tree α) : Tree α := (insCore nn t).1

/-! ### deletion up to the fixup (`_delete_from_tree` before `_rb_delete_fixup`)

  `y` is the spliced-out node (the node itself, or its in-order successor when it has two
  children), `x` its only child (or NIL), `A_1` = `y`'s parent.  The code then runs, in this order,
    L1  from `y` upwards: while the ancestor's maximum equals `minv y` recompute it, else stop;
    F1  recompute `A_1` (or `x` when `y` was the root);
    C   (successor case) copy `y`'s content into `z`, recompute `z`;
    L2  (successor case) for every ancestor of `z`: if its maximum equals the old `minv z` then
        recompute it unless a tie test says otherwise, else raise it to the child's maximum.
  The recursion returns what an ancestor needs from below. -/

structure DelRes (α : Type) where
  t : Tree α        -- the final subtree at this position
  m1 : α            -- the stored maximum of this position's root after loop L1 (before F1 / C / L2)
  l1 : Bool         -- loop L1 has not stopped below
  yv : α            -- `minv y`
  atY : Bool        -- this position is `y`'s own (so the parent is `A_1`)
  xpr : α           -- maximum stored at the right child of `x`'s parent, after the splice
  zg : Option α     -- `some (minv z)` (old content) once the successor copy happened at or below

/-- one ancestor of the path: `n mx c` with the path child on side `d`, `o` the other child -/
def ancestor (S : α) (d : Dir) (n : Node α) (mx : α) (c : Bool) (o : Tree α) (res : DelRes α) : DelRes α :=
  let lm1 := match d with | .L => res.m1 | .R => mxOf S o
  let rm1 := match d with | .L => mxOf S o | .R => res.m1
  let hit := res.l1 && eqv mx res.yv
  let p1 := if hit then recompM lm1 rm1 (minv n) else mx
  let lf := match d with | .L => mxOf S res.t | .R => mxOf S o
  let rf := match d with | .L => mxOf S o | .R => mxOf S res.t
  let f1 := if res.atY then recompM lf rf (minv n) else p1
  let xpr := if res.atY then rf else res.xpr
  let fin := match res.zg with
    | none => f1
    | some zg =>
      if eqv f1 zg then
        if !(eqv (minv n) zg) && !(eqv lf zg && eqv xpr zg) then recompM lf rf (minv n) else f1
      else if f1 < mxOf S res.t then mxOf S res.t else f1
  let t := match d with
    | .L => Tree.node res.t n fin c o
    | .R => Tree.node o n fin c res.t
  { t := t, m1 := p1, l1 := hit, yv := res.yv, atY := false, xpr := xpr, zg := res.zg }

/-- splice out the minimum of a subtree (the successor `y` of `z`), returning `y`'s content -/
def delMin (S : α) : Tree α → Option (Node α × DelRes α)
  | .nil => none
  | .node .nil n _ _ r =>
    some (n, { t := r, m1 := mxOf S r, l1 := true, yv := minv n, atY := true, xpr := S, zg := none })
  | .node l n mx c r =>
    match delMin S l with
    | none => none
    | some (yn, res) => some (yn, ancestor S .L n mx c r res)

def del (S : α) (k : α) : Tree α → Option (DelRes α)
  | .nil => none
  | .node l n mx c r =>
    if k < n.key then (del S k l).map (ancestor S .L n mx c r)
    else if n.key < k then (del S k r).map (ancestor S .R n mx c l)
    else
      match l, r with
      | .nil, _ => some { t := r, m1 := mxOf S r, l1 := true, yv := minv n, atY := true, xpr := S, zg := none }
      | _, .nil => some { t := l, m1 := mxOf S l, l1 := true, yv := minv n, atY := true, xpr := S, zg := none }
      | _, _ =>
        match delMin S r with
        | none => none
        | some (yn, res) =>
          let hit := res.l1 && eqv mx res.yv
          let p1 := if hit then recompM (mxOf S l) res.m1 (minv n) else mx
          let xpr := if res.atY then mxOf S res.t else res.xpr
          some { t := .node l yn (recompM (mxOf S l) (mxOf S res.t) (minv yn)) c res.t,
                 m1 := p1, l1 := hit, yv := res.yv, atY := false, xpr := xpr, zg := some (minv n) }

def refresh (S : α) : Tree α → Tree α
  | .nil => .nil
  | .node l n _ c r => .node l n (recomp S l n r) c r

/-- `_delete_from_tree` up to the colour fixup; `none` = "node not found" (the code raises) -/
def delCore (S : α) (k : α) (t : Tree α) : Option (Tree α) :=
  (del S k t).map fun res => if res.atY then refresh S res.t else res.t

/-! ### the invariants -/

/-- strictly ordered keys -/
def BST : Tree α → Prop
  | .nil => True
  | .node l n _ _ r =>
    (∀ a ∈ l.toList, a.key < n.key) ∧ (∀ b ∈ r.toList, n.key < b.key) ∧ BST l ∧ BST r

/-- the stored maxima never OVERestimate the true subtree maximum (they may underestimate) -/
def AugLe (S : α) : Tree α → Prop
  | .nil => True
  | .node l n mx c r => mx ≤ trueMax S (.node l n mx c r) ∧ AugLe S l ∧ AugLe S r

/-- what the query actually relies on: no overestimate anywhere *below* the root -- the root's own
    stored maximum is never read (phase 1 only reads maxima of left children) -/
def AugLeQ (S : α) : Tree α → Prop
  | .nil => True
  | .node l _ _ _ r => AugLe S l ∧ AugLe S r

/-- the stored maxima are exact -/
def Exact (S : α) : Tree α → Prop
  | .nil => True
  | .node l n mx c r => mx = trueMax S (.node l n mx c r) ∧ Exact S l ∧ Exact S r

/-! ### decidable forms of the invariants (used by the driver on the real trees) -/

def Tree.all (p : Node α → Bool) : Tree α → Bool
  | .nil => true
  | .node l n _ _ r => l.all p && p n && r.all p

def bstB : Tree α → Bool
  | .nil => true
  | .node l n _ _ r =>
    l.all (fun a => decide (a.key < n.key)) && r.all (fun b => decide (n.key < b.key)) && bstB l && bstB r

/-- no stored maximum exceeds the true subtree maximum -/
def augLeB (S : α) : Tree α → Bool
  | .nil => true
  | .node l n mx c r => !(decide (trueMax S (.node l n mx c r) < mx)) && augLeB S l && augLeB S r

def augLeQB (S : α) : Tree α → Bool
  | .nil => true
  | .node l _ _ _ r => augLeB S l && augLeB S r

def exactB (S : α) : Tree α → Bool
  | .nil => true
  | .node l n mx c r => eqv mx (trueMax S (.node l n mx c r)) && exactB S l && exactB S r

end

/-! ### the sweep over an operation list -/

inductive Op (α : Type) where
  | ins (n : Node α)
  | del (k : α)
  | qry (k ang g : α)
  deriving Repr, Inhabited

section
variable {α : Type} [LT α] [DecidableLT α] [LE α] [DecidableLE α] [Add α] [Sub α] [Mul α] [Div α]

/-- L1 state: the active cells as a plain list -/
def stepL (st : List (Node α)) : Op α → List (Node α) × Option Bool
  | .ins n => (n :: st, none)
  | .del k => (st.filter (fun n => !(eqv n.key k)), none)
  | .qry k ang g => (st, some (visL st k ang g))

def runL : List (Node α) → List (Op α) → List Bool
  | _, [] => []
  | st, op :: ops =>
    let (st', o) := stepL st op
    match o with
    | some b => b :: runL st' ops
    | none => runL st' ops

/-- any implementation of the status structure -/
structure TreeOps (α : Type) where
  ins : Node α → Tree α → Tree α
  del : α → Tree α → Tree α

def stepT (S : α) (O : TreeOps α) (t : Tree α) : Op α → Tree α × Option Bool
  | .ins n => (O.ins n t, none)
  | .del k => (O.del k t, none)
  | .qry k ang g => (t, some (visT S t k ang g))

def runT (S : α) (O : TreeOps α) : Tree α → List (Op α) → List Bool
  | _, [] => []
  | t, op :: ops =>
    let (t', o) := stepT S O t op
    match o with
    | some b => b :: runT S O t' ops
    | none => runT S O t' ops

/-- the model's own (unbalanced) implementation: the code's operations without the colour fixups -/
def coreOps (S : α) : TreeOps α where
  ins := leafInsert
  del := fun k t => (delCore S k t).getD t

/-- the permanent dummy root `_create_status_struct` installs: its ten-element value array
    `[0, -1, -1, S, S, S, 0, 0, 0, S]` is read with the eight-field layout, which gives
    key 0, gradients (-1, -1, S) and bearings (S, S, 0); its `minv` is the sentinel -/
def dummy (S zero negOne : α) : Node α := ⟨zero, negOne, negOne, S, S, S, zero⟩

def initTree (S zero negOne : α) : Tree α := .node .nil (dummy S zero negOne) S false .nil


/-! ### the refinement relation between the tree and the abstract list -/

/-- the tree holds exactly the abstract active set plus the permanent dummy `d`, with strictly
    ordered keys and stored maxima that never overestimate (below the root) -/
def Rel (S : α) (d : Node α) (t : Tree α) (st : List (Node α)) : Prop :=
  BST t ∧ AugLeQ S t ∧ ∀ n, n ∈ t.toList ↔ (n = d ∨ n ∈ st)

/-- what the sweep guarantees at a centre event: the gradient is not below the sentinel, the cell
    itself is active, every nearer active cell spans the bearing, and the dummy contributes nothing -/
def QOK (S : α) (d : Node α) (st : List (Node α)) (k ang g : α) : Prop :=
  S ≤ g ∧ (∃ n ∈ st, n.key = k) ∧ (∀ n ∈ st, n.key < k → spans n ang = true) ∧
    minv d ≤ g ∧ (spans d ang = true → itp d ang ≤ g)

def OpOK (S : α) (d : Node α) (st : List (Node α)) : Op α → Prop
  | .ins n => n.key ≠ d.key ∧ ∀ m ∈ st, m.key ≠ n.key
  | .del _ => True
  | .qry k ang g => QOK S d st k ang g

def OpsOK (S : α) (d : Node α) : List (Node α) → List (Op α) → Prop
  | _, [] => True
  | st, op :: ops => OpOK S d st op ∧ OpsOK S d (stepL st op).1 ops

/-- every state of this run of implementation `O` is related to the abstract state
    (what seam 1 of the correspondence checks on the real arrays after every operation) -/
def InvAlong (S : α) (d : Node α) (O : TreeOps α) : Tree α → List (Node α) → List (Op α) → Prop
  | t, st, [] => Rel S d t st
  | t, st, op :: ops => Rel S d t st ∧ InvAlong S d O (stepT S O t op).1 (stepL st op).1 ops

/-- each tree operation preserves the relation -/
def Preserves (S : α) (d : Node α) (O : TreeOps α) : Prop :=
  (∀ t st n, Rel S d t st → n.key ≠ d.key → (∀ m ∈ st, m.key ≠ n.key) → Rel S d (O.ins n t) (n :: st)) ∧
  (∀ t st k, Rel S d t st → Rel S d (O.del k t) (st.filter fun n => !(eqv n.key k)))


/-- an implementation whose operations are the model's (`leafInsert`, `delCore`) followed by what the
    colour fixups may do -- what seam 1 of the correspondence observes of the real code, step by step -/
def Impl (S : α) (O : TreeOps α) : Prop :=
  (∀ n t, Rebal S (leafInsert n t) (O.ins n t)) ∧ (∀ k t c, delCore S k t = some c → Rebal S c (O.del k t))

/-- a sweep without gradient ties: every inserted cell has a minimum gradient above the sentinel and,
    whenever a cell is deleted, no two active cells (nor the dummy) share their minimum gradient -/
def NoTieOps (S : α) (d : Node α) : List (Node α) → List (Op α) → Prop
  | _, [] => True
  | st, op :: ops =>
    (match op with
      | .ins n => S ≤ minv n
      | .del k => (∃ n ∈ st, n.key = k) ∧ d.key ≠ k ∧
          (∀ a ∈ d :: st, ∀ b ∈ d :: st, minv a = minv b → a.key = b.key) ∧
          (∀ n ∈ d :: st, minv n = S → n.key < k)
      | .qry _ _ _ => True) ∧ NoTieOps S d (stepL st op).1 ops

end

end XrsVerif.Viewshed
