/-
  Core/Dataflow -- a DAG of pure tasks; any schedule (any order, any number of workers started in
  the same tick) produces the same store.  DESIGN.md Appendix A.6, kept verbatim (definitions and
  theorem names); shared by C01 / C03 / C07 / C11.  Core Lean only (no Mathlib).
  NB `Graph` is indexed by task number: *different tasks have different keys* by construction.  dask identifies tasks
  by key and merges the dictionaries of results evaluated together; that premise is modelled and discharged separately
  (Proofs/GraphKeys.lean `joint_eval_eq_alone`; Props/C01 `no_call_site_names_its_graph_key`, from generated facts).
-/
namespace XrsVerif.DF
/-- a pure task graph, topologically numbered -/
structure Graph (V : Type) where
  deps : Nat → List Nat
  f : Nat → List V → V
  deps_lt : ∀ i j, j ∈ deps i → j < i

variable {V : Type}

/-- the denotation of task `i`: what any execution must produce -/
def den (g : Graph V) (i : Nat) : V :=
  g.f i ((g.deps i).attach.map (fun ⟨j, hj⟩ => den g j))
termination_by i
decreasing_by exact g.deps_lt i j hj

abbrev Store (V : Type) := Nat → Option V

def ready (g : Graph V) (s : Store V) (i : Nat) : Bool :=
  (s i).isNone && (g.deps i).all (fun j => (s j).isSome)

/-- a batch = tasks started by the workers in the same tick; all read the pre-state `s` -/
def runBatch (g : Graph V) (s : Store V) (batch : List Nat) : Store V :=
  fun k => if k ∈ batch ∧ ready g s k = true
           then some (g.f k ((g.deps k).map (fun j => (s j).getD (g.f k []))))
           else s k

def run (g : Graph V) (sched : List (List Nat)) (s : Store V) : Store V :=
  sched.foldl (runBatch g) s

def Sound (g : Graph V) (s : Store V) : Prop := ∀ i v, s i = some v → v = den g i

theorem den_unfold (g : Graph V) (i : Nat) : den g i = g.f i ((g.deps i).map (den g)) := by
  rw [den]; congr 1
  have : ∀ l : List Nat, l.attach.map (fun x : {j // j ∈ l} => den g x.1) = l.map (den g) := by
    intro l
    rw [List.attach_map_val (f := den g)]
  exact this (g.deps i)

theorem runBatch_sound (g : Graph V) (s : Store V) (b : List Nat) (hs : Sound g s) :
    Sound g (runBatch g s b) := by
  intro i v h
  unfold runBatch at h
  split at h
  · rename_i hc
    injection h with h; subst h
    rw [den_unfold]; congr 1
    apply List.map_congr_left
    intro j hj
    have hr := hc.2
    simp only [ready, Bool.and_eq_true, List.all_eq_true] at hr
    have hsome := hr.2 j hj
    cases hsj : s j with
    | none => simp [hsj] at hsome
    | some w => simp [Option.getD]; exact hs j w hsj
  · exact hs i v h

theorem run_sound (g : Graph V) (sched : List (List Nat)) (s : Store V) (hs : Sound g s) :
    Sound g (run g sched s) := by
  induction sched generalizing s with
  | nil => exact hs
  | cons b bs ih => exact ih _ (runBatch_sound g s b hs)

/-- any two schedules (any order, any number of workers) agree wherever both have a value;
    in particular two complete schedules produce the same store. -/
theorem schedule_independent (g : Graph V) (s1 s2 : List (List Nat)) (i : Nat) (v w : V)
    (h1 : run g s1 (fun _ => none) i = some v) (h2 : run g s2 (fun _ => none) i = some w) : v = w := by
  have e : Sound g (fun _ => none) := by intro i v h; simp at h
  rw [run_sound g s1 _ e i v h1, run_sound g s2 _ e i w h2]
end XrsVerif.DF
