import XrsVerif.Core.KLang
/-
  ILang: the target of the translator `harness/translate_il.py` (layer T3).

  KLang (layer T1) covers kernels that are *one expression per output cell*.  The algorithmic cores of
  the library (binary search of `_cpu_bin`, the four scans of `_trim` / `_crop`, `_strides`, the two
  labelling passes of `_area_connectivity`, the helpers of `_a_star_search`, ...) are numba loop nests
  with integer bookkeeping, several arrays, `while`, `break`, early `return`.  They are translated
  statement by statement into a `Prog` of this small imperative language; `exec` is its interpreter.

  * integer scalars are unbounded `Int` (numba: int64; wrap-around is outside the model),
  * numeric scalars and numeric arrays are generic in the number type (`Fl`): `Float` in the driver
    (translator validation against numba), any `Fl` instance in the theorems,
  * arrays are flat lists with a shape; an index is normalised the way numba does it (a negative index
    wraps around once), anything still out of range stops the program with `Ctl.err` -- so an
    out-of-bounds access of the real code can never be "proved correct" by a defaulting read,
  * `range(lo, hi, step)` is evaluated once, the loop variable keeps its last value,
  * `while` consumes fuel (one unit per iteration); running out of fuel is `Ctl.err`.

  No Mathlib import: linked into the driver executable.
-/
namespace XrsVerif.IL
open XrsVerif

inductive IOp | add | sub | mul | fdiv | mod | min | max | tdiv
  deriving Repr, DecidableEq

/-- NaN-ignoring reductions over a whole numeric array (numba's `np.nan*`: one pass in memory order) -/
inductive RedOp | nansum | nanmean | nanmin | nanmax | nanvar | nanstd
  deriving Repr, DecidableEq

/-- integer expressions -/
inductive IE where
  | lit (n : Int)
  | var (v : String)
  | bin (op : IOp) (a b : IE)
  | neg (a : IE)
  | dim (arr : String) (axis : Nat)          -- arr.shape[axis]; len(arr) = dim arr 0
  | ld1 (arr : String) (i : IE)              -- integer array reads
  | ld2 (arr : String) (i j : IE)
  | sum (arr : String)                        -- np.sum(<integer / boolean array>)
  deriving Repr, DecidableEq

/-- numeric expressions -/
inductive FE where
  | lit (n : Int) (d : Nat)
  | nan
  | inf
  | pi
  | var (v : String)
  | ofInt (e : IE)
  | ld1 (arr : String) (i : IE)
  | ld2 (arr : String) (i j : IE)
  | un (op : UnOp) (a : FE)
  | bin (op : BinOp) (a b : FE)
  /-- an external numeric function of (up to) four numeric and one integer argument, e.g. the metric
      dispatch `_distance(x1, x2, y1, y2, metric)`; interpreted by `State.ext` -/
  | ext (fn : String) (a b c d : FE) (k : IE)
  | red (op : RedOp) (arr : String)
  deriving Repr, DecidableEq

/-- conditions (`and` / `or` short-circuit) -/
inductive BE where
  | tt | ff
  | var (v : String)
  | cmpI (op : CmpOp) (a b : IE)
  | cmpF (op : CmpOp) (a b : FE)
  | isnan (a : FE)
  | isfinite (a : FE)
  | and (a b : BE)
  | or (a b : BE)
  | not (a : BE)
  deriving Repr, DecidableEq

inductive St where
  | skip
  | seq (a b : St)
  | setI (v : String) (e : IE)
  | setF (v : String) (e : FE)
  | setB (v : String) (c : BE)
  | stF1 (arr : String) (i : IE) (e : FE)
  | stF2 (arr : String) (i j : IE) (e : FE)
  | stI1 (arr : String) (i : IE) (e : IE)
  | stI2 (arr : String) (i j : IE) (e : IE)
  | allocF (arr : String) (dims : List IE) (fill : FE)
  | allocI (arr : String) (dims : List IE) (fill : IE)
  | ite (c : BE) (t f : St)
  | while (c : BE) (body : St)
  | forRange (v : String) (lo hi step : IE) (body : St)
  | forIn (v : String) (arr : String) (body : St)      -- for v in <1-D numeric array>
  | brk | cont | ret
  /-- the body of an inlined callee: its `return` ends only the callee -/
  | scope (body : St)
  | fail (msg : String)
  deriving Repr, DecidableEq

inductive Ctl | run | brk | cont | ret | err (msg : String)
  deriving Repr, DecidableEq

structure State (F : Type) where
  ienv : String → Int
  fenv : String → F
  benv : String → Bool
  ia : String → List Int
  fa : String → List F
  shp : String → List Nat
  ext : String → F → F → F → F → Int → F
  ctl : Ctl

variable {F : Type} [Fl F]

def setS {α} (env : String → α) (v : String) (x : α) : String → α :=
  fun w => if w = v then x else env w

@[simp] theorem setS_same {α} (env : String → α) (v : String) (x : α) : setS env v x v = x := by
  simp [setS]

theorem setS_other {α} (env : String → α) (v w : String) (x : α) (h : w ≠ v) :
    setS env v x w = env w := by simp [setS, h]

/-- numba's index normalisation: a negative index wraps around once -/
def normIdx (i : Int) (n : Nat) : Int := if i < 0 then i + n else i

def inRange (i : Int) (n : Nat) : Bool := decide (0 ≤ normIdx i n ∧ normIdx i n < n)

/-- flat offset of `a[i]` / `a[i, j]` (only meaningful when `inRange`) -/
def off1 (shp : List Nat) (i : Int) : Nat := (normIdx i (shp.getD 0 0)).toNat
def off2 (shp : List Nat) (i j : Int) : Nat :=
  (normIdx i (shp.getD 0 0)).toNat * shp.getD 1 0 + (normIdx j (shp.getD 1 0)).toNat

def IOp.eval : IOp → Int → Int → Int
  | .add => (· + ·) | .sub => (· - ·) | .mul => (· * ·)
  | .fdiv => Int.fdiv | .mod => Int.fmod | .tdiv => Int.tdiv
  | .min => fun a b => if b < a then b else a
  | .max => fun a b => if b > a then b else a

def IE.eval (s : State F) : IE → Int
  | .lit n => n
  | .var v => s.ienv v
  | .bin op a b => op.eval (a.eval s) (b.eval s)
  | .neg a => -(a.eval s)
  | .dim a k => ((s.shp a).getD k 0 : Nat)
  | .ld1 a i => (s.ia a).getD (off1 (s.shp a) (i.eval s)) 0
  | .ld2 a i j => (s.ia a).getD (off2 (s.shp a) (i.eval s) (j.eval s)) 0
  | .sum a => (s.ia a).foldl (· + ·) 0

/-- every array read of the expression is in range (division by zero is also rejected) -/
def IE.ok (s : State F) : IE → Bool
  | .lit _ => true
  | .var _ => true
  | .sum _ => true
  | .bin op a b => a.ok s && b.ok s &&
      (match op with | .fdiv | .mod | .tdiv => decide (b.eval s ≠ 0) | _ => true)
  | .neg a => a.ok s
  | .dim a k => decide (k < (s.shp a).length)
  | .ld1 a i => i.ok s && decide ((s.shp a).length = 1) && inRange (i.eval s) ((s.shp a).getD 0 0)
  | .ld2 a i j => i.ok s && j.ok s && decide ((s.shp a).length = 2) &&
      inRange (i.eval s) ((s.shp a).getD 0 0) && inRange (j.eval s) ((s.shp a).getD 1 0)

/-- the non-NaN entries, in order -/
def nonNan (xs : List F) : List F := xs.filter fun x => !(Fl.isnan x)

def sumF (xs : List F) : F := xs.foldl Fl.add (Fl.lit 0 1)

/-- `np.nansum` … `np.nanstd` as numba implements them: `nanmean = sum / count` (NaN for no entry),
    `nanmin` / `nanmax` keep the first extreme entry (NaN for no entry), `nanvar` is the mean squared
    deviation from `nanmean` -/
def RedOp.eval (op : RedOp) (xs : List F) : F :=
  let ys := nonNan xs
  let n : F := Fl.lit ys.length 1
  let mean := Fl.div (sumF ys) n
  let var := Fl.div (sumF (ys.map fun y => Fl.mul (Fl.sub y mean) (Fl.sub y mean))) n
  match op with
  | .nansum => sumF ys
  | .nanmean => mean
  | .nanmin => match ys with
      | [] => Fl.nan
      | y :: r => r.foldl (fun m x => if Fl.lt x m then x else m) y
  | .nanmax => match ys with
      | [] => Fl.nan
      | y :: r => r.foldl (fun m x => if Fl.lt m x then x else m) y
  | .nanvar => var
  | .nanstd => Fl.sqrt var

def FE.eval (s : State F) : FE → F
  | .lit n d => Fl.lit n d
  | .nan => Fl.nan
  | .inf => Fl.div (Fl.lit 1 1) (Fl.lit 0 1)
  | .pi => Fl.mul (Fl.lit 4 1) (Fl.atan (Fl.lit 1 1))
  | .var v => s.fenv v
  | .ofInt e => Fl.lit (e.eval s) 1
  | .ld1 a i => (s.fa a).getD (off1 (s.shp a) (i.eval s)) Fl.nan
  | .ld2 a i j => (s.fa a).getD (off2 (s.shp a) (i.eval s) (j.eval s)) Fl.nan
  | .un op a => op.eval (a.eval s)
  | .bin op a b => op.eval (a.eval s) (b.eval s)
  | .ext fn a b c d k => s.ext fn (a.eval s) (b.eval s) (c.eval s) (d.eval s) (k.eval s)
  | .red op a => op.eval (s.fa a)

def FE.ok (s : State F) : FE → Bool
  | .ofInt e => e.ok s
  | .ld1 a i => i.ok s && decide ((s.shp a).length = 1) && inRange (i.eval s) ((s.shp a).getD 0 0)
  | .ld2 a i j => i.ok s && j.ok s && decide ((s.shp a).length = 2) &&
      inRange (i.eval s) ((s.shp a).getD 0 0) && inRange (j.eval s) ((s.shp a).getD 1 0)
  | .un _ a => a.ok s
  | .bin _ a b => a.ok s && b.ok s
  | .ext _ a b c d k => a.ok s && b.ok s && c.ok s && d.ok s && k.ok s
  | _ => true

def cmpInt : CmpOp → Int → Int → Bool
  | .lt => fun a b => decide (a < b) | .le => fun a b => decide (a ≤ b)
  | .eq => fun a b => decide (a = b) | .ne => fun a b => decide (a ≠ b)
  | .gt => fun a b => decide (b < a) | .ge => fun a b => decide (b ≤ a)

def BE.eval (s : State F) : BE → Bool
  | .tt => true
  | .ff => false
  | .var v => s.benv v
  | .cmpI op a b => cmpInt op (a.eval s) (b.eval s)
  | .cmpF op a b => op.eval (a.eval s) (b.eval s)
  | .isnan a => Fl.isnan (a.eval s)
  | .isfinite a => Fl.isfinite (a.eval s)
  | .and a b => a.eval s && b.eval s
  | .or a b => a.eval s || b.eval s
  | .not a => !(a.eval s)

/-- in-range test that follows the short-circuit evaluation order -/
def BE.ok (s : State F) : BE → Bool
  | .cmpI _ a b => a.ok s && b.ok s
  | .cmpF _ a b => a.ok s && b.ok s
  | .isnan a => a.ok s
  | .isfinite a => a.ok s
  | .and a b => a.ok s && (!(a.eval s) || b.ok s)
  | .or a b => a.ok s && (a.eval s || b.ok s)
  | .not a => a.ok s
  | _ => true

def State.error (s : State F) (m : String) : State F := { s with ctl := .err m }

/-- the integers `range(lo, hi, step)` runs through -/
def rangeList (lo hi step : Int) : List Int :=
  if step > 0 then (List.range ((hi - lo + step - 1) / step).toNat).map fun (k : Nat) => lo + step * (k : Int)
  else if step < 0 then (List.range ((lo - hi - step - 1) / (-step)).toNat).map fun (k : Nat) => lo + step * (k : Int)
  else []

/-- after one loop-body execution: `continue` resumes the loop -/
def afterBody (s : State F) : State F :=
  match s.ctl with
  | .cont => { s with ctl := .run }
  | _ => s

/-- after the loop: `break` ends only the loop -/
def afterLoop (s : State F) : State F :=
  match s.ctl with
  | .brk => { s with ctl := .run }
  | _ => s

/-- iterate `f` over `xs` while control is `run` -/
def loopOver {α} (f : State F → α → State F) (xs : List α) (s : State F) : State F :=
  afterLoop (xs.foldl (fun st x => if st.ctl = .run then afterBody (f st x) else st) s)

def exec : Nat → St → State F → State F
  | _, .skip, s => s
  | fuel, .seq a b, s =>
      let s1 := exec fuel a s
      if s1.ctl = .run then exec fuel b s1 else s1
  | _, .setI v e, s => if e.ok s then { s with ienv := setS s.ienv v (e.eval s) } else s.error "index"
  | _, .setF v e, s => if e.ok s then { s with fenv := setS s.fenv v (e.eval s) } else s.error "index"
  | _, .setB v c, s => if c.ok s then { s with benv := setS s.benv v (c.eval s) } else s.error "index"
  | _, .stF1 a i e, s =>
      if i.ok s && e.ok s && decide ((s.shp a).length = 1) && inRange (i.eval s) ((s.shp a).getD 0 0) then
        { s with fa := setS s.fa a ((s.fa a).set (off1 (s.shp a) (i.eval s)) (e.eval s)) }
      else s.error "index"
  | _, .stF2 a i j e, s =>
      if i.ok s && j.ok s && e.ok s && decide ((s.shp a).length = 2) &&
          inRange (i.eval s) ((s.shp a).getD 0 0) && inRange (j.eval s) ((s.shp a).getD 1 0) then
        { s with fa := setS s.fa a ((s.fa a).set (off2 (s.shp a) (i.eval s) (j.eval s)) (e.eval s)) }
      else s.error "index"
  | _, .stI1 a i e, s =>
      if i.ok s && e.ok s && decide ((s.shp a).length = 1) && inRange (i.eval s) ((s.shp a).getD 0 0) then
        { s with ia := setS s.ia a ((s.ia a).set (off1 (s.shp a) (i.eval s)) (e.eval s)) }
      else s.error "index"
  | _, .stI2 a i j e, s =>
      if i.ok s && j.ok s && e.ok s && decide ((s.shp a).length = 2) &&
          inRange (i.eval s) ((s.shp a).getD 0 0) && inRange (j.eval s) ((s.shp a).getD 1 0) then
        { s with ia := setS s.ia a ((s.ia a).set (off2 (s.shp a) (i.eval s) (j.eval s)) (e.eval s)) }
      else s.error "index"
  | _, .allocF a dims fill, s =>
      if dims.all (·.ok s) && fill.ok s && dims.all (fun d => decide (0 ≤ d.eval s)) then
        let sh := dims.map fun d => (d.eval s).toNat
        { s with shp := setS s.shp a sh, fa := setS s.fa a (List.replicate (sh.foldl (· * ·) 1) (fill.eval s)) }
      else s.error "alloc"
  | _, .allocI a dims fill, s =>
      if dims.all (·.ok s) && fill.ok s && dims.all (fun d => decide (0 ≤ d.eval s)) then
        let sh := dims.map fun d => (d.eval s).toNat
        { s with shp := setS s.shp a sh, ia := setS s.ia a (List.replicate (sh.foldl (· * ·) 1) (fill.eval s)) }
      else s.error "alloc"
  | fuel, .ite c t f, s =>
      if c.ok s then (if c.eval s then exec fuel t s else exec fuel f s) else s.error "index"
  | 0, .while _ _, s => s.error "fuel"
  | fuel + 1, .while c body, s =>
      if c.ok s then
        if c.eval s then
          let s1 := exec fuel body s
          match s1.ctl with
          | .run => exec fuel (.while c body) s1
          | .cont => exec fuel (.while c body) { s1 with ctl := .run }
          | .brk => { s1 with ctl := .run }
          | _ => s1
        else s
      else s.error "index"
  | fuel, .forRange v lo hi step body, s =>
      if lo.ok s && hi.ok s && step.ok s && decide (step.eval s ≠ 0) then
        loopOver (fun st i => exec fuel body { st with ienv := setS st.ienv v i })
          (rangeList (lo.eval s) (hi.eval s) (step.eval s)) s
      else s.error "index"
  | fuel, .forIn v a body, s =>
      if (s.shp a).length = 1 then
        loopOver (fun st x => exec fuel body { st with fenv := setS st.fenv v x }) (s.fa a) s
      else s.error "index"
  | _, .brk, s => { s with ctl := .brk }
  | _, .cont, s => { s with ctl := .cont }
  | _, .ret, s => { s with ctl := .ret }
  | fuel, .scope body, s =>
      let s1 := exec fuel body s
      if s1.ctl = .ret then { s1 with ctl := .run } else s1
  | _, .fail m, s => s.error m
termination_by fuel st => (fuel, st)

/-- types of parameters and results -/
inductive Ty | int | num | bool | arrF (nd : Nat) | arrI (nd : Nat)
  deriving Repr, DecidableEq

/-- a translated function.  Results are read from the variables / arrays named in `rets` when the
    program stops (`return a, b` is translated to assignments to `ret0`, `ret1` followed by `.ret`). -/
structure Prog where
  name : String
  params : List (String × Ty)
  rets : List (String × Ty)
  body : St
  /-- `false` when some statement was not understood (the body then contains `.fail`) -/
  ok : Bool
  deriving Repr

def State.empty : State F :=
  { ienv := fun _ => 0, fenv := fun _ => Fl.nan, benv := fun _ => false,
    ia := fun _ => [], fa := fun _ => [], shp := fun _ => [], ext := fun _ _ _ _ _ _ => Fl.nan,
    ctl := .run }

def Prog.run (p : Prog) (s : State F) (fuel : Nat) : State F := exec fuel p.body s

/-- a run that ended by falling off the end or by `return` -/
def State.finished (s : State F) : Bool :=
  match s.ctl with
  | .run | .ret => true
  | _ => false

end XrsVerif.IL
