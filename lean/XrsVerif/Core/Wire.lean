/-
  Line protocol between the Python harness and the Lean driver (DESIGN.md Appendix C).

  A request is one line `cmd key=value key=value ...`; values never contain spaces.
  Numbers: `nan`, `inf`, `-inf`, integers, `n/d`, or `M@E` (= M * 2^E, the exact value of a
  binary float).  Lists are comma separated, grids are `HxW:v,v,...` row-major.
  No Mathlib import: linked into the driver executable.
-/
namespace XrsVerif.Wire

/-- an exact extended number -/
inductive Num where
  | nan | pinf | ninf
  | fin (q : Rat)
  deriving Repr, DecidableEq, Inhabited

def pow2 (e : Int) : Rat :=
  if e ≥ 0 then ((2 ^ e.toNat : Nat) : Rat) else 1 / ((2 ^ (-e).toNat : Nat) : Rat)

def parseNum (s : String) : Option Num :=
  if s == "nan" then some .nan
  else if s == "inf" then some .pinf
  else if s == "-inf" then some .ninf
  else match s.splitOn "@" with
    | [m, e] => do
        let m ← m.toInt?
        let e ← e.toInt?
        some (.fin ((m : Rat) * pow2 e))
    | _ => match s.splitOn "/" with
      | [n, d] => do
          let n ← n.toInt?
          let d ← d.toNat?
          if d == 0 then none else some (.fin ((n : Rat) / (d : Rat)))
      | [n] => do
          let n ← n.toInt?
          some (.fin (n : Rat))
      | _ => none

def ratToFloat (q : Rat) : Float := Float.ofInt q.num / Float.ofNat q.den

/-- exact when the token was `M@E` with |M| < 2^53 (what the harness sends for floats) -/
def parseFloat (s : String) : Option Float :=
  if s == "nan" then some (0.0 / 0.0)
  else if s == "inf" then some (1.0 / 0.0)
  else if s == "-inf" then some (-1.0 / 0.0)
  else match s.splitOn "@" with
    | [m, e] => do
        let m ← m.toInt?
        let e ← e.toInt?
        some ((Float.ofInt m).scaleB e)
    | _ => match parseNum s with
      | some (.fin q) => some (ratToFloat q)
      | _ => none

def Num.toFloat : Num → Float
  | .nan => 0.0 / 0.0
  | .pinf => 1.0 / 0.0
  | .ninf => -1.0 / 0.0
  | .fin q => ratToFloat q

/-- print a float exactly as `M@E` -/
def showFloat (x : Float) : String :=
  if x.isNaN then "nan"
  else if x.isInf then (if x > 0 then "inf" else "-inf")
  else if x == 0 then "0"
  else
    let (m, e) := x.frExp
    let mi := (m.scaleB 53).toInt64.toInt
    s!"{mi}@{e - 53}"

def showRat (q : Rat) : String :=
  if q.den == 1 then toString q.num else s!"{q.num}/{q.den}"

def showNum : Num → String
  | .nan => "nan" | .pinf => "inf" | .ninf => "-inf"
  | .fin q => showRat q

def splitList (s : String) : List String :=
  if s.isEmpty then [] else s.splitOn ","

def parseList {α} (p : String → Option α) (s : String) : Option (List α) :=
  (splitList s).mapM p

structure GridOf (α : Type) where
  h : Nat
  w : Nat
  data : Array α
  deriving Inhabited

def GridOf.get {α} [Inhabited α] (g : GridOf α) (i j : Nat) : α := g.data[i * g.w + j]!

def GridOf.getI {α} (fill : α) (g : GridOf α) (i j : Int) : α :=
  if 0 ≤ i ∧ i < g.h ∧ 0 ≤ j ∧ j < g.w then g.data.getD (i.toNat * g.w + j.toNat) fill else fill

def GridOf.rows {α} [Inhabited α] (g : GridOf α) : List (List α) :=
  (List.range g.h).map fun i => (List.range g.w).map fun j => g.get i j

def parseGrid {α} (p : String → Option α) (s : String) : Option (GridOf α) :=
  match s.splitOn ":" with
  | [shape, body] =>
    match shape.splitOn "x" with
    | [h, w] => do
        let h ← h.toNat?
        let w ← w.toNat?
        let xs ← parseList p body
        if xs.length == h * w then some ⟨h, w, xs.toArray⟩ else none
    | _ => none
  | _ => none

def showGrid {α} (sh : α → String) (rows : List (List α)) : String :=
  let h := rows.length
  let w := (rows.head?.map List.length).getD 0
  s!"{h}x{w}:" ++ ",".intercalate (rows.flatten.map sh)

/-- `key=value` pairs of a request line -/
abbrev Args := List (String × String)

def parseLine (line : String) : String × Args :=
  match (line.trimAscii.toString.splitOn " ").filter (· ≠ "") with
  | [] => ("", [])
  | cmd :: rest =>
    (cmd, rest.filterMap fun kv =>
      match kv.splitOn "=" with
      | k :: v :: more => some (k, "=".intercalate (v :: more))
      | _ => none)

def Args.get? (a : Args) (k : String) : Option String := (a.find? (·.1 == k)).map (·.2)

def Args.nat? (a : Args) (k : String) : Option Nat := a.get? k >>= String.toNat?
def Args.int? (a : Args) (k : String) : Option Int := a.get? k >>= String.toInt?
def Args.num? (a : Args) (k : String) : Option Num := a.get? k >>= parseNum
def Args.float? (a : Args) (k : String) : Option Float := a.get? k >>= parseFloat
def Args.nats? (a : Args) (k : String) : Option (List Nat) := a.get? k >>= parseList String.toNat?
def Args.ints? (a : Args) (k : String) : Option (List Int) := a.get? k >>= parseList String.toInt?
def Args.nums? (a : Args) (k : String) : Option (List Num) := a.get? k >>= parseList parseNum

/-- all pairs whose key starts with `pre`, prefix stripped -/
def Args.withPrefix (a : Args) (pre : String) : Args :=
  a.filterMap fun (k, v) => if k.startsWith pre then some ((k.drop pre.length).toString, v) else none

end XrsVerif.Wire
