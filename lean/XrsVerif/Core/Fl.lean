/-
  Float-like value domain used by every *generated* kernel (Gen/*.lean).

  The same generated program is evaluated at two instances:
  * `Float`           -- IEEE double, used by the driver for the correspondence run;
  * `NV K := Option K` (Proofs/NV.lean) -- `none` = NaN over an ordered field, used by the theorems.
  No Mathlib import here: this file is linked into the driver executable.
-/
namespace XrsVerif

class Fl (F : Type) where
  lit : Int → Nat → F          -- the literal n / d, d > 0
  nan : F
  add : F → F → F
  sub : F → F → F
  mul : F → F → F
  div : F → F → F
  neg : F → F
  abs : F → F
  lt : F → F → Bool
  le : F → F → Bool
  eq : F → F → Bool
  isnan : F → Bool
  isfinite : F → Bool
  sqrt : F → F
  atan : F → F
  atan2 : F → F → F
  exp : F → F
  sin : F → F
  cos : F → F
  asin : F → F

instance : Fl Float where
  lit n d := Float.ofInt n / Float.ofNat d
  nan := 0.0 / 0.0
  add := (· + ·)
  sub := (· - ·)
  mul := (· * ·)
  div := (· / ·)
  neg := fun x => -x
  abs := Float.abs
  lt a b := a < b
  le a b := a ≤ b
  eq a b := a == b
  isnan := Float.isNaN
  isfinite := Float.isFinite
  sqrt := Float.sqrt
  atan := Float.atan
  atan2 := Float.atan2
  exp := Float.exp
  sin := Float.sin
  cos := Float.cos
  asin := Float.asin

end XrsVerif
