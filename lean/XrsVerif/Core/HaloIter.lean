import XrsVerif.Core.Halo
/-
  Iterated overlap computations (focal mean with `passes`): every pass is a fresh `map_overlap`
  over the previous (lazy) result; by induction the chunked computation equals the iterated
  whole-raster specification after any number of passes.
-/
namespace XrsVerif

variable {α : Type}

/-- rasters equal on their extent -/
def Grid.EqOn (g1 g2 : Grid α) : Prop :=
  g1.h = g2.h ∧ g1.w = g2.w ∧
    ∀ i j : Int, 0 ≤ i → i < g1.h → 0 ≤ j → j < g1.w → g1.cell i j = g2.cell i j

theorem Grid.EqOn.refl (g : Grid α) : g.EqOn g := ⟨rfl, rfl, fun _ _ _ _ _ _ => rfl⟩

theorem Grid.EqOn.trans {g1 g2 g3 : Grid α} (h12 : g1.EqOn g2) (h23 : g2.EqOn g3) : g1.EqOn g3 := by
  obtain ⟨a1, a2, a3⟩ := h12
  obtain ⟨b1, b2, b3⟩ := h23
  refine ⟨a1.trans b1, a2.trans b2, ?_⟩
  intro i j h1 h2 h3 h4
  rw [a3 i j h1 h2 h3 h4]
  exact b3 i j h1 (by omega) h3 (by omega)

theorem Grid.get_congr (fill : α) {g1 g2 : Grid α} (h : g1.EqOn g2) (i j : Int) :
    g1.get fill i j = g2.get fill i j := by
  obtain ⟨h1, h2, h3⟩ := h
  unfold Grid.get
  by_cases hc : 0 ≤ i ∧ i < g1.h ∧ 0 ≤ j ∧ j < g1.w
  · rw [if_pos hc, if_pos (by omega)]
    exact h3 i j hc.1 hc.2.1 hc.2.2.1 hc.2.2.2
  · rw [if_neg hc, if_neg (by omega)]

/-- the whole-raster specification as a raster -/
def specGrid (fill : α) (k : (Int → Int → α) → α) (g : Grid α) : Grid α :=
  { h := g.h, w := g.w, cell := spec fill k g }

theorem specGrid_congr (fill : α) (k : (Int → Int → α) → α) {g1 g2 : Grid α} (h : g1.EqOn g2) :
    (specGrid fill k g1).EqOn (specGrid fill k g2) := by
  refine ⟨h.1, h.2.1, ?_⟩
  intro i j _ _ _ _
  simp only [specGrid, spec]
  congr 1
  funext a b
  exact Grid.get_congr fill h _ _

/-- one pass: chunked = specification, as rasters -/
theorem mapOverlap_EqOn_spec (fill dflt : α) (dr dc mr mc : Nat)
    (k : (Int → Int → α) → α) (f : Grid α → Grid α)
    (hk : WindowLocal dr dc k) (hf : IsStencil mr mc k f) (hmr : mr ≤ dr) (hmc : mc ≤ dc)
    (rch cch : List Nat) (g : Grid α) (hrs : rch.sum = g.h) (hcs : cch.sum = g.w) :
    (mapOverlap fill dflt dr dc f rch cch g).EqOn (specGrid fill k g) := by
  refine ⟨rfl, rfl, ?_⟩
  intro i j h1 h2 h3 h4
  exact mapOverlap_eq_spec_of_valid fill dflt dr dc mr mc k f hk hf hmr hmc rch cch g hrs hcs i j h1 h2 h3 h4

/-- `n` passes of a chunked overlap computation -/
def passesChunked (fill dflt : α) (dr dc : Nat) (f : Grid α → Grid α) (rch cch : List Nat) : Nat → Grid α → Grid α
  | 0, g => g
  | n + 1, g => mapOverlap fill dflt dr dc f rch cch (passesChunked fill dflt dr dc f rch cch n g)

/-- `n` passes of the whole-raster specification -/
def passesSpec (fill : α) (k : (Int → Int → α) → α) : Nat → Grid α → Grid α
  | 0, g => g
  | n + 1, g => specGrid fill k (passesSpec fill k n g)

theorem passesChunked_dims (fill dflt : α) (dr dc : Nat) (f : Grid α → Grid α) (rch cch : List Nat)
    (n : Nat) (g : Grid α) :
    (passesChunked fill dflt dr dc f rch cch n g).h = g.h ∧ (passesChunked fill dflt dr dc f rch cch n g).w = g.w := by
  induction n with
  | zero => exact ⟨rfl, rfl⟩
  | succ n ih => simpa [passesChunked, mapOverlap] using ih

theorem passesSpec_dims (fill : α) (k : (Int → Int → α) → α) (n : Nat) (g : Grid α) :
    (passesSpec fill k n g).h = g.h ∧ (passesSpec fill k n g).w = g.w := by
  induction n with
  | zero => exact ⟨rfl, rfl⟩
  | succ n ih => simpa [passesSpec, specGrid] using ih

/-- **any number of passes, any chunking**: the chunked iteration equals the iterated specification -/
theorem passes_eq_spec (fill dflt : α) (dr dc mr mc : Nat)
    (k : (Int → Int → α) → α) (f : Grid α → Grid α)
    (hk : WindowLocal dr dc k) (hf : IsStencil mr mc k f) (hmr : mr ≤ dr) (hmc : mc ≤ dc)
    (rch cch : List Nat) (g : Grid α) (hrs : rch.sum = g.h) (hcs : cch.sum = g.w) (n : Nat) :
    (passesChunked fill dflt dr dc f rch cch n g).EqOn (passesSpec fill k n g) := by
  induction n with
  | zero => exact Grid.EqOn.refl g
  | succ n ih =>
    have hd := passesChunked_dims fill dflt dr dc f rch cch n g
    simp only [passesChunked, passesSpec]
    exact (mapOverlap_EqOn_spec fill dflt dr dc mr mc k f hk hf hmr hmc rch cch _
      (by rw [hd.1]; exact hrs) (by rw [hd.2]; exact hcs)).trans (specGrid_congr fill k ih)

/-- a block function run `n` times on the same block -/
def iterBlock (f : Grid α → Grid α) : Nat → Grid α → Grid α
  | 0, g => g
  | n + 1, g => f (iterBlock f n g)

/-- the *other* shape a multi-pass overlap computation can take: ONE `map_overlap` whose block function
    runs all `n` passes on its block (halo exchanged once).  With a halo of depth 1 this is not the
    iterated specification for `n ≥ 2` (Props/C01.lean has a concrete witness). -/
def passesFused (fill dflt : α) (dr dc : Nat) (f : Grid α → Grid α) (rch cch : List Nat) (n : Nat)
    (g : Grid α) : Grid α :=
  mapOverlap fill dflt dr dc (iterBlock f n) rch cch g

end XrsVerif
