import XrsVerif.Core.KLang
/-
  Rasters as functions, chunk lists, and the model of dask's `map_overlap` / `map_blocks`.

  `mapOverlap fill depth f rch cch g` cuts `g` into the blocks given by the row chunk list `rch`
  and the column chunk list `cch`, pads every block with a halo of `depth` cells taken from the
  neighbouring blocks (and `fill` beyond the raster: `boundary=fill`), applies the block function
  `f`, trims the halo and reassembles.  The halo theorem `mapOverlap_eq_spec` says that for a
  window-local cell function whose radius is covered by the depth this equals the cell function
  applied to the `fill`-padded *global* window -- for every chunking whatsoever (no lower bound on
  chunk sizes: 1-cell chunks and chunks smaller than the kernel are included).

  Core Lean only (no Mathlib): `omega` does all the index work.
-/
namespace XrsVerif

structure Grid (α : Type) where
  h : Nat
  w : Nat
  cell : Int → Int → α

variable {α β : Type}

/-- read with `fill` outside the extent (NaN padding) -/
def Grid.get (fill : α) (g : Grid α) (i j : Int) : α :=
  if 0 ≤ i ∧ i < g.h ∧ 0 ≤ j ∧ j < g.w then g.cell i j else fill

/-- `locate cs off i` = (start, size) of the chunk containing index `i` -/
def locate : List Nat → Nat → Nat → Option (Nat × Nat)
  | [], _, _ => none
  | c :: cs, off, i => if i < off + c then some (off, c) else locate cs (off + c) i

theorem locate_spec (cs : List Nat) (off i : Nat) (r0 c : Nat)
    (h : locate cs off i = some (r0, c)) (hi : off ≤ i) : r0 ≤ i ∧ i < r0 + c := by
  induction cs generalizing off with
  | nil => simp [locate] at h
  | cons x xs ih =>
    simp only [locate] at h
    split at h
    · injection h with h; injection h with h1 h2; subst h1; subst h2; omega
    · exact ih (off + x) h (by omega)

/-- a chunk list that sums to the extent locates every index -/
theorem locate_total (cs : List Nat) (off i : Nat) (ho : off ≤ i) (hi : i < off + cs.sum) :
    ∃ r, locate cs off i = some r := by
  induction cs generalizing off with
  | nil => simp at hi; omega
  | cons x xs ih =>
    simp only [locate]
    split
    · exact ⟨_, rfl⟩
    · apply ih
      · omega
      · simp only [List.sum_cons] at hi; omega

/-- the block dask hands to the block function: the chunk plus a halo of depth (dr, dc) -/
def haloBlock (fill : α) (dr dc : Nat) (g : Grid α) (r0 hh c0 ww : Nat) : Grid α :=
  { h := hh + 2 * dr, w := ww + 2 * dc,
    cell := fun i j => g.get fill ((r0 : Int) - dr + i) ((c0 : Int) - dc + j) }

/-- dask `map_overlap(f, depth=(dr,dc), boundary=fill)` followed by the trim -/
def mapOverlap (fill : α) (dflt : β) (dr dc : Nat) (f : Grid α → Grid β)
    (rch cch : List Nat) (g : Grid α) : Grid β :=
  { h := g.h, w := g.w,
    cell := fun i j =>
      match locate rch 0 i.toNat, locate cch 0 j.toNat with
      | some (r0, hh), some (c0, ww) =>
          (f (haloBlock fill dr dc g r0 hh c0 ww)).cell (i - r0 + dr) (j - c0 + dc)
      | _, _ => dflt }

/-- dask `map_blocks(f)` = overlap of depth 0 -/
def mapBlocks (fill : α) (dflt : β) (f : Grid α → Grid β) (rch cch : List Nat) (g : Grid α) : Grid β :=
  mapOverlap fill dflt 0 0 f rch cch g

/-- `k` looks at most `dr` rows and `dc` columns away -/
def WindowLocal (dr dc : Nat) (k : (Int → Int → α) → β) : Prop :=
  ∀ w1 w2 : Int → Int → α,
    (∀ a b : Int, -(dr:Int) ≤ a → a ≤ dr → -(dc:Int) ≤ b → b ≤ dc → w1 a b = w2 a b) → k w1 = k w2

theorem WindowLocal.mono {dr dc dr' dc' : Nat} {k : (Int → Int → α) → β}
    (h : WindowLocal dr dc k) (hr : dr ≤ dr') (hc : dc ≤ dc') : WindowLocal dr' dc' k := by
  intro w1 w2 hw
  apply h
  intro a b h1 h2 h3 h4
  exact hw a b (by omega) (by omega) (by omega) (by omega)

/-- the block function computes `k` of the local window at every cell at least (mr, mc) away from
    the block's edge (what a numpy kernel with loop margins (mr, mc) does) -/
def IsStencil (mr mc : Nat) (k : (Int → Int → α) → β) (f : Grid α → Grid β) : Prop :=
  ∀ (g : Grid α) (i j : Int), (mr:Int) ≤ i → i < (g.h:Int) - mr → (mc:Int) ≤ j → j < (g.w:Int) - mc →
    (f g).cell i j = k (fun a b => g.cell (i + a) (j + b))

/-- the specification: `k` on the `fill`-padded global window -/
def spec (fill : α) (k : (Int → Int → α) → β) (g : Grid α) (i j : Int) : β :=
  k (fun a b => g.get fill (i + a) (j + b))

/-- **halo theorem**: for every chunking, every raster, every cell -/
theorem mapOverlap_eq_spec (fill : α) (dflt : β) (dr dc mr mc : Nat)
    (k : (Int → Int → α) → β) (f : Grid α → Grid β)
    (hk : WindowLocal dr dc k) (hf : IsStencil mr mc k f) (hmr : mr ≤ dr) (hmc : mc ≤ dc)
    (rch cch : List Nat) (g : Grid α) (i j : Int) (hi : 0 ≤ i) (hj : 0 ≤ j)
    (r0 hh c0 ww : Nat)
    (hr : locate rch 0 i.toNat = some (r0, hh)) (hc : locate cch 0 j.toNat = some (c0, ww)) :
    (mapOverlap fill dflt dr dc f rch cch g).cell i j = spec fill k g i j := by
  have h1 := locate_spec rch 0 i.toNat r0 hh hr (by omega)
  have h2 := locate_spec cch 0 j.toNat c0 ww hc (by omega)
  simp only [mapOverlap, hr, hc]
  rw [hf]
  · unfold spec; apply hk; intro a b _ _ _ _; simp only [haloBlock]; congr 1 <;> omega
  · omega
  · simp only [haloBlock]; omega
  · omega
  · simp only [haloBlock]; omega

/-- the version users rely on: chunk lists that sum to the raster's extent -/
theorem mapOverlap_eq_spec_of_valid (fill : α) (dflt : β) (dr dc mr mc : Nat)
    (k : (Int → Int → α) → β) (f : Grid α → Grid β)
    (hk : WindowLocal dr dc k) (hf : IsStencil mr mc k f) (hmr : mr ≤ dr) (hmc : mc ≤ dc)
    (rch cch : List Nat) (g : Grid α) (hrs : rch.sum = g.h) (hcs : cch.sum = g.w)
    (i j : Int) (hi : 0 ≤ i) (hi' : i < g.h) (hj : 0 ≤ j) (hj' : j < g.w) :
    (mapOverlap fill dflt dr dc f rch cch g).cell i j = spec fill k g i j := by
  obtain ⟨⟨r0, hh⟩, hr⟩ := locate_total rch 0 i.toNat (by omega) (by omega)
  obtain ⟨⟨c0, ww⟩, hc⟩ := locate_total cch 0 j.toNat (by omega) (by omega)
  exact mapOverlap_eq_spec fill dflt dr dc mr mc k f hk hf hmr hmc rch cch g i j hi hj r0 hh c0 ww hr hc

/-- two valid chunkings give the same raster -/
theorem chunk_independent (fill : α) (dflt : β) (dr dc mr mc : Nat)
    (k : (Int → Int → α) → β) (f : Grid α → Grid β)
    (hk : WindowLocal dr dc k) (hf : IsStencil mr mc k f) (hmr : mr ≤ dr) (hmc : mc ≤ dc)
    (rch cch rch' cch' : List Nat) (g : Grid α)
    (hrs : rch.sum = g.h) (hcs : cch.sum = g.w) (hrs' : rch'.sum = g.h) (hcs' : cch'.sum = g.w)
    (i j : Int) (hi : 0 ≤ i) (hi' : i < g.h) (hj : 0 ≤ j) (hj' : j < g.w) :
    (mapOverlap fill dflt dr dc f rch cch g).cell i j =
      (mapOverlap fill dflt dr dc f rch' cch' g).cell i j := by
  rw [mapOverlap_eq_spec_of_valid fill dflt dr dc mr mc k f hk hf hmr hmc rch cch g hrs hcs i j hi hi' hj hj',
      mapOverlap_eq_spec_of_valid fill dflt dr dc mr mc k f hk hf hmr hmc rch' cch' g hrs' hcs' i j hi hi' hj hj']

/-! ### generated kernels as block functions -/

variable {F : Type} [Fl F]

/-- a generated kernel applied to a (multi-array) raster, `Kernel.run` in function representation:
    cells inside the loop margins get `k.cell` of their window, all others the allocation value -/
def Kernel.runG (k : Kernel) (env : String → F) (vec : String → List F) (g : Grid (String → F)) : Grid F :=
  { h := g.h, w := g.w,
    cell := fun i j =>
      if (k.top : Int) ≤ i ∧ i + k.bottom < g.h ∧ (k.left : Int) ≤ j ∧ j + k.right < g.w then
        k.cell env (fun a dy dx => g.cell (i + dy) (j + dx) a) vec
      else k.fill.val }

/-- the cell function of a kernel on a window of zipped arrays -/
def Kernel.win (k : Kernel) (env : String → F) (vec : String → List F) (w : Int → Int → (String → F)) : F :=
  k.cell env (fun a dy dx => w dy dx a) vec

theorem Kernel.win_local (k : Kernel) (env : String → F) (vec : String → List F) (dr dc : Nat)
    (hw : readsWithin k.body.reads dr dc = true) : WindowLocal dr dc (k.win env vec) := by
  intro w1 w2 h
  unfold Kernel.win
  apply Kernel.cell_local
  apply AgreeOn_of_within _ dr dc hw
  intro a dy dx h1 h2 h3 h4
  rw [h dy dx h1 h2 h3 h4]

theorem Kernel.runG_stencil (k : Kernel) (env : String → F) (vec : String → List F) (mr mc : Nat)
    (ht : k.top ≤ mr) (hb : k.bottom ≤ mr) (hl : k.left ≤ mc) (hr : k.right ≤ mc) :
    IsStencil mr mc (k.win env vec) (k.runG env vec) := by
  intro g i j h1 h2 h3 h4
  simp only [Kernel.runG, Kernel.win]
  rw [if_pos]
  refine ⟨by omega, by omega, by omega, by omega⟩

/-- **dask = spec for a generated kernel**: any chunking, any depth covering radius and margins -/
theorem Kernel.overlap_eq_spec (k : Kernel) (env : String → F) (vec : String → List F)
    (rr rc dr dc : Nat) (hw : readsWithin k.body.reads rr rc = true)
    (hrr : rr ≤ dr) (hrc : rc ≤ dc)
    (ht : k.top ≤ dr) (hb : k.bottom ≤ dr) (hl : k.left ≤ dc) (hr : k.right ≤ dc)
    (fill : String → F) (dflt : F) (rch cch : List Nat) (g : Grid (String → F))
    (hrs : rch.sum = g.h) (hcs : cch.sum = g.w)
    (i j : Int) (hi : 0 ≤ i) (hi' : i < g.h) (hj : 0 ≤ j) (hj' : j < g.w) :
    (mapOverlap fill dflt dr dc (k.runG env vec) rch cch g).cell i j = spec fill (k.win env vec) g i j :=
  mapOverlap_eq_spec_of_valid fill dflt dr dc dr dc (k.win env vec) (k.runG env vec)
    ((k.win_local env vec rr rc hw).mono hrr hrc) (k.runG_stencil env vec dr dc ht hb hl hr)
    (Nat.le_refl _) (Nat.le_refl _) rch cch g hrs hcs i j hi hi' hj hj'

/-- numpy (the kernel on the whole raster) = spec at every cell inside the loop margins, provided
    the margins cover the read radius (so no read leaves the raster) -/
theorem Kernel.numpy_eq_spec_interior (k : Kernel) (env : String → F) (vec : String → List F)
    (rr rc : Nat) (hw : readsWithin k.body.reads rr rc = true)
    (ht : rr ≤ k.top) (hb : rr ≤ k.bottom) (hl : rc ≤ k.left) (hr : rc ≤ k.right)
    (fill : String → F) (g : Grid (String → F)) (i j : Int)
    (hin : (k.top : Int) ≤ i ∧ i + k.bottom < g.h ∧ (k.left : Int) ≤ j ∧ j + k.right < g.w) :
    (k.runG env vec g).cell i j = spec fill (k.win env vec) g i j := by
  simp only [Kernel.runG, if_pos hin, spec, Kernel.win]
  apply Kernel.cell_local
  apply AgreeOn_of_within _ rr rc hw
  intro a dy dx h1 h2 h3 h4
  simp only [Grid.get]
  rw [if_pos]
  refine ⟨by omega, by omega, by omega, by omega⟩

/-- per-cell kernels (no margins, read only offset (0,0)): `map_blocks` over any chunking is the
    kernel on the whole raster -/
theorem Kernel.mapBlocks_eq_numpy (k : Kernel) (env : String → F) (vec : String → List F)
    (hw : readsWithin k.body.reads 0 0 = true)
    (ht : k.top = 0) (hb : k.bottom = 0) (hl : k.left = 0) (hr : k.right = 0)
    (fill : String → F) (dflt : F) (rch cch : List Nat) (g : Grid (String → F))
    (hrs : rch.sum = g.h) (hcs : cch.sum = g.w)
    (i j : Int) (hi : 0 ≤ i) (hi' : i < g.h) (hj : 0 ≤ j) (hj' : j < g.w) :
    (mapBlocks fill dflt (k.runG env vec) rch cch g).cell i j = (k.runG env vec g).cell i j := by
  unfold mapBlocks
  rw [Kernel.overlap_eq_spec k env vec 0 0 0 0 hw (Nat.le_refl _) (Nat.le_refl _)
      (by omega) (by omega) (by omega) (by omega) fill dflt rch cch g hrs hcs i j hi hi' hj hj']
  rw [Kernel.numpy_eq_spec_interior k env vec 0 0 hw (by omega) (by omega) (by omega) (by omega) fill g i j
      ⟨by omega, by omega, by omega, by omega⟩]

end XrsVerif
