import XrsVerif.Core.Fl
/-
  KLang: the target of the translator `harness/translate.py` (layer T1).

  A numba per-cell kernel

      for y in range(m0, rows - m1):
          for x in range(n0, cols - n1):
              <body>

  is translated to a value of `Kernel`: the loop margins, the value the output array was
  allocated with, and the loop body as a small imperative program `S` over expressions `E`
  and conditions `C`.  The semantics (`S.exec`) is generic in the number type (`Fl`).
  Everything here is Mathlib-free and executable; the generic theorems at the bottom
  (`exec_local`: a kernel only depends on the cells it syntactically reads) are proved once
  for every program the translator can ever emit.
-/
namespace XrsVerif

inductive UnOp | neg | abs | sqrt | atan | exp | sin | cos | asin
  deriving Repr, DecidableEq

inductive BinOp | add | sub | mul | div | atan2 | min | max
  deriving Repr, DecidableEq

inductive CmpOp | lt | le | eq | ne | gt | ge
  deriving Repr, DecidableEq

/-- expressions -/
inductive E where
  | lit (n : Int) (d : Nat)
  | nan
  | pi
  | var (name : String)
  | rd (arr : String) (dy dx : Int)      -- arr[y + dy, x + dx]
  | un (op : UnOp) (a : E)
  | bin (op : BinOp) (a b : E)
  deriving Repr, DecidableEq

/-- conditions -/
inductive C where
  | tt | ff
  | cmp (op : CmpOp) (a b : E)
  | isnan (a : E)
  | isfinite (a : E)
  | anyEq (vec : String) (a : E)          -- np.any(vec == a)
  | and (a b : C)
  | or (a b : C)
  | not (a : C)
  deriving Repr, DecidableEq

/-- statements of a loop body -/
inductive S where
  | skip
  | seq (a b : S)
  | assign (v : String) (e : E)
  | store (e : E)                          -- out[y, x] = e   /  return e
  | ite (c : C) (t f : S)
  | cont                                   -- continue / return
  | fail (msg : String)                    -- raise
  deriving Repr, DecidableEq

variable {F : Type} [Fl F]

/-- what a body can see: scalar variables, relative array reads, 1-D parameter vectors -/
structure Ctx (F : Type) where
  env : String → F
  rd  : String → Int → Int → F
  vec : String → List F

def UnOp.eval : UnOp → F → F
  | .neg => Fl.neg | .abs => Fl.abs | .sqrt => Fl.sqrt | .atan => Fl.atan
  | .exp => Fl.exp | .sin => Fl.sin | .cos => Fl.cos | .asin => Fl.asin

/-- Python's builtin `min(a, b)` returns `b if b < a else a`; `max(a, b)` returns `b if b > a else a` -/
def BinOp.eval : BinOp → F → F → F
  | .add => Fl.add | .sub => Fl.sub | .mul => Fl.mul | .div => Fl.div | .atan2 => Fl.atan2
  | .min => fun a b => if Fl.lt b a then b else a
  | .max => fun a b => if Fl.lt a b then b else a

def CmpOp.eval : CmpOp → F → F → Bool
  | .lt => Fl.lt | .le => Fl.le | .eq => Fl.eq
  | .ne => fun a b => !(Fl.eq a b)
  | .gt => fun a b => Fl.lt b a
  | .ge => fun a b => Fl.le b a

def E.eval (k : Ctx F) : E → F
  | .lit n d => Fl.lit n d
  | .nan => Fl.nan
  | .pi => Fl.mul (Fl.lit 4 1) (Fl.atan (Fl.lit 1 1))
  | .var v => k.env v
  | .rd a dy dx => k.rd a dy dx
  | .un op a => op.eval (a.eval k)
  | .bin op a b => op.eval (a.eval k) (b.eval k)

def C.eval (k : Ctx F) : C → Bool
  | .tt => true
  | .ff => false
  | .cmp op a b => op.eval (a.eval k) (b.eval k)
  | .isnan a => Fl.isnan (a.eval k)
  | .isfinite a => Fl.isfinite (a.eval k)
  | .anyEq v a => (k.vec v).any (fun x => Fl.eq x (a.eval k))
  | .and a b => a.eval k && b.eval k
  | .or a b => a.eval k || b.eval k
  | .not a => !(a.eval k)

/-- state of one loop iteration -/
structure KSt (F : Type) where
  env : String → F
  out : F
  halted : Bool
  failed : Option String

def setVar (env : String → F) (v : String) (x : F) : String → F :=
  fun w => if w = v then x else env w

def S.exec (rd : String → Int → Int → F) (vec : String → List F) : S → KSt F → KSt F
  | .skip, s => s
  | .seq a b, s =>
      let s1 := a.exec rd vec s
      if s1.halted then s1 else b.exec rd vec s1
  | .assign v e, s => { s with env := setVar s.env v (e.eval ⟨s.env, rd, vec⟩) }
  | .store e, s => { s with out := e.eval ⟨s.env, rd, vec⟩ }
  | .ite c t f, s => if c.eval ⟨s.env, rd, vec⟩ then t.exec rd vec s else f.exec rd vec s
  | .cont, s => { s with halted := true }
  | .fail m, s => { s with halted := true, failed := some m }

/-- how the output array was allocated -/
inductive Fill | nan | zero
  deriving Repr, DecidableEq

def Fill.val : Fill → F
  | .nan => Fl.nan
  | .zero => Fl.lit 0 1

/-- a translated kernel -/
structure Kernel where
  name : String
  arrays : List String
  scalars : List String
  vectors : List String
  fill : Fill
  /-- loop is `range(top, rows - bottom)` × `range(left, cols - right)` -/
  top : Nat
  bottom : Nat
  left : Nat
  right : Nat
  /-- statements executed once before the loops that only bind scalars (e.g. `range_val = max - min`) -/
  pre : S
  /-- guard around the loops (e.g. `if range_val != 0`) -/
  guard : C
  body : S
  deriving Repr

/-- the value of one output cell given the scalars and the window around the cell -/
def Kernel.cell (k : Kernel) (env : String → F) (rd : String → Int → Int → F)
    (vec : String → List F) : F :=
  let s0 : KSt F := { env := env, out := k.fill.val, halted := false, failed := none }
  let s1 := k.pre.exec (fun _ _ _ => Fl.nan) vec s0
  if k.guard.eval ⟨s1.env, fun _ _ _ => Fl.nan, vec⟩ then
    (k.body.exec rd vec { s1 with halted := false }).out
  else k.fill.val

def Kernel.cellFailed (k : Kernel) (env : String → F) (rd : String → Int → Int → F)
    (vec : String → List F) : Option String :=
  let s0 : KSt F := { env := env, out := k.fill.val, halted := false, failed := none }
  (k.body.exec rd vec s0).failed

/-- run the kernel over whole arrays (`get a i j`, absolute indices) -/
def Kernel.run (k : Kernel) (rows cols : Nat) (env : String → F)
    (get : String → Int → Int → F) (vec : String → List F) : List (List F) :=
  (List.range rows).map fun y => (List.range cols).map fun x =>
    if k.top ≤ y ∧ y + k.bottom < rows ∧ k.left ≤ x ∧ x + k.right < cols then
      k.cell env (fun a dy dx => get a ((y : Int) + dy) ((x : Int) + dx)) vec
    else k.fill.val

/-! ### syntactic read sets and the locality theorem -/

def E.reads : E → List (String × Int × Int)
  | .rd a dy dx => [(a, dy, dx)]
  | .un _ a => a.reads
  | .bin _ a b => a.reads ++ b.reads
  | _ => []

def C.reads : C → List (String × Int × Int)
  | .cmp _ a b => a.reads ++ b.reads
  | .isnan a => a.reads
  | .isfinite a => a.reads
  | .anyEq _ a => a.reads
  | .and a b => a.reads ++ b.reads
  | .or a b => a.reads ++ b.reads
  | .not a => a.reads
  | _ => []

def S.reads : S → List (String × Int × Int)
  | .seq a b => a.reads ++ b.reads
  | .assign _ e => e.reads
  | .store e => e.reads
  | .ite c t f => c.reads ++ t.reads ++ f.reads
  | _ => []

omit [Fl F] in
/-- two windows agree on a read set -/
def AgreeOn (l : List (String × Int × Int)) (r1 r2 : String → Int → Int → F) : Prop :=
  ∀ a dy dx, (a, dy, dx) ∈ l → r1 a dy dx = r2 a dy dx

theorem E.eval_local (e : E) (env : String → F) (vec : String → List F)
    (r1 r2 : String → Int → Int → F) (h : AgreeOn e.reads r1 r2) :
    e.eval ⟨env, r1, vec⟩ = e.eval ⟨env, r2, vec⟩ := by
  induction e with
  | lit n d => rfl
  | nan => rfl
  | pi => rfl
  | var v => rfl
  | rd a dy dx => exact h a dy dx (by simp [E.reads])
  | un op a ih =>
    simp only [E.eval]
    rw [ih (fun a' dy dx hm => h a' dy dx (by simpa [E.reads] using hm))]
  | bin op a b iha ihb =>
    simp only [E.eval]
    rw [iha (fun a' dy dx hm => h a' dy dx (by simp [E.reads, hm])),
        ihb (fun a' dy dx hm => h a' dy dx (by simp [E.reads, hm]))]

theorem C.eval_local (c : C) (env : String → F) (vec : String → List F)
    (r1 r2 : String → Int → Int → F) (h : AgreeOn c.reads r1 r2) :
    c.eval ⟨env, r1, vec⟩ = c.eval ⟨env, r2, vec⟩ := by
  induction c with
  | tt => rfl
  | ff => rfl
  | cmp op a b =>
    simp only [C.eval]
    rw [E.eval_local a env vec r1 r2 (fun a' dy dx hm => h a' dy dx (by simp [C.reads, hm])),
        E.eval_local b env vec r1 r2 (fun a' dy dx hm => h a' dy dx (by simp [C.reads, hm]))]
  | isnan a =>
    simp only [C.eval]
    rw [E.eval_local a env vec r1 r2 (fun a' dy dx hm => h a' dy dx (by simpa [C.reads] using hm))]
  | isfinite a =>
    simp only [C.eval]
    rw [E.eval_local a env vec r1 r2 (fun a' dy dx hm => h a' dy dx (by simpa [C.reads] using hm))]
  | anyEq v a =>
    simp only [C.eval]
    rw [E.eval_local a env vec r1 r2 (fun a' dy dx hm => h a' dy dx (by simpa [C.reads] using hm))]
  | and a b iha ihb =>
    simp only [C.eval]
    rw [iha (fun a' dy dx hm => h a' dy dx (by simp [C.reads, hm])),
        ihb (fun a' dy dx hm => h a' dy dx (by simp [C.reads, hm]))]
  | or a b iha ihb =>
    simp only [C.eval]
    rw [iha (fun a' dy dx hm => h a' dy dx (by simp [C.reads, hm])),
        ihb (fun a' dy dx hm => h a' dy dx (by simp [C.reads, hm]))]
  | not a iha =>
    simp only [C.eval]
    rw [iha (fun a' dy dx hm => h a' dy dx (by simpa [C.reads] using hm))]

/-- **locality**: a loop body only depends on the cells in its syntactic read set -/
theorem S.exec_local (s : S) (vec : String → List F) (r1 r2 : String → Int → Int → F)
    (h : AgreeOn s.reads r1 r2) (st : KSt F) :
    s.exec r1 vec st = s.exec r2 vec st := by
  induction s generalizing st with
  | skip => rfl
  | seq a b iha ihb =>
    simp only [S.exec]
    rw [iha (fun a' dy dx hm => h a' dy dx (by simp [S.reads, hm]))]
    split
    · rfl
    · exact ihb (fun a' dy dx hm => h a' dy dx (by simp [S.reads, hm])) _
  | assign v e =>
    simp only [S.exec]
    rw [E.eval_local e st.env vec r1 r2 (fun a' dy dx hm => h a' dy dx (by simpa [S.reads] using hm))]
  | store e =>
    simp only [S.exec]
    rw [E.eval_local e st.env vec r1 r2 (fun a' dy dx hm => h a' dy dx (by simpa [S.reads] using hm))]
  | ite c t f iht ihf =>
    simp only [S.exec]
    rw [C.eval_local c st.env vec r1 r2 (fun a' dy dx hm => h a' dy dx (by simp [S.reads, hm]))]
    split
    · exact iht (fun a' dy dx hm => h a' dy dx (by simp [S.reads, hm])) _
    · exact ihf (fun a' dy dx hm => h a' dy dx (by simp [S.reads, hm])) _
  | cont => rfl
  | fail m => rfl

/-- the value of a kernel cell is a function of the cells in `body.reads` only -/
theorem Kernel.cell_local (k : Kernel) (env : String → F) (vec : String → List F)
    (r1 r2 : String → Int → Int → F) (h : AgreeOn k.body.reads r1 r2) :
    k.cell env r1 vec = k.cell env r2 vec := by
  unfold Kernel.cell
  simp only
  split
  · rw [S.exec_local k.body vec r1 r2 h]
  · rfl

/-- the radius of a read set -/
def readsWithin (l : List (String × Int × Int)) (dr dc : Nat) : Bool :=
  l.all fun (_, dy, dx) => decide (-(dr : Int) ≤ dy ∧ dy ≤ dr ∧ -(dc : Int) ≤ dx ∧ dx ≤ dc)

omit [Fl F] in
theorem AgreeOn_of_within (l : List (String × Int × Int)) (dr dc : Nat)
    (hw : readsWithin l dr dc = true) (r1 r2 : String → Int → Int → F)
    (h : ∀ a (dy dx : Int), -(dr : Int) ≤ dy → dy ≤ dr → -(dc : Int) ≤ dx → dx ≤ dc →
        r1 a dy dx = r2 a dy dx) : AgreeOn l r1 r2 := by
  intro a dy dx hm
  simp only [readsWithin, List.all_eq_true] at hw
  have := hw (a, dy, dx) hm
  simp only [decide_eq_true_eq] at this
  exact h a dy dx this.1 this.2.1 this.2.2.1 this.2.2.2

end XrsVerif
