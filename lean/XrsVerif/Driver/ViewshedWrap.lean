import XrsVerif.Core.Wire
import XrsVerif.Model.ViewshedWrapper
/-!
  driver command for the wrapper glue of C05 (`Model/ViewshedWrapper.lean`), exact rationals.

  `vs_wrap grid=HxW:v,.. xs=c,.. ys=c,.. x=Q y=Q oe=Q te=Q`
  -> `vr=R vc=C ew=Q ns=Q velev=Q vt=Q`  (what `_viewshed_cpu` passes to `_viewshed_cpu_sweep`)
   | `err:ValueError`                      (observer outside the coordinate range)
   | `err:unknown-wrapper-shape`           (the source facts of `_viewshed_cpu` are not the ones the model interprets)
-/
namespace XrsVerif.Driver.ViewshedWrap
open XrsVerif XrsVerif.Wire XrsVerif.ViewshedWrapper

def finList (ns : List Num) : Option (List Rat) :=
  ns.mapM fun n => match n with | .fin q => some q | _ => none

def cmdWrap (a : Args) : String := Id.run do
  let some gs := a.get? "grid" | return "bad-args grid"
  let some g := parseGrid parseNum gs | return "bad-args grid-syntax"
  let some xs := (a.nums? "xs") >>= finList | return "bad-args xs"
  let some ys := (a.nums? "ys") >>= finList | return "bad-args ys"
  let some (.fin x) := a.num? "x" | return "bad-args x"
  let some (.fin y) := a.num? "y" | return "bad-args y"
  let some (.fin oe) := a.num? "oe" | return "bad-args oe"
  let some (.fin te) := a.num? "te" | return "bad-args te"
  if g.h != ys.length || g.w != xs.length then return "bad-args shape"
  if g.data.any (fun v => match v with | .fin _ => false | _ => true) then return "err:non-finite-terrain"
  let T : Int → Int → Rat := fun i j => match g.getI (.fin 0) i j with | .fin q => q | _ => 0
  match wrapperInputs T xs ys x y oe te with
  | .error e => return s!"err:{e}"
  | .ok I => return s!"vr={I.vr} vc={I.vc} ew={showRat I.ew} ns={showRat I.ns} velev={showRat I.velev} vt={showRat I.vt}"

def handlers : List (String × (Args → String)) := [("vs_wrap", cmdWrap)]

end XrsVerif.Driver.ViewshedWrap
