import XrsVerif.Core.Wire
import XrsVerif.Model.Proximity
/-! driver commands for the proximity model (C06) -/
namespace XrsVerif.Driver.Proximity
open XrsVerif XrsVerif.Wire XrsVerif.Prox

def toVal : Num → Val
  | .nan => .nan | .pinf => .pinf | .ninf => .ninf
  | .fin q => .fin q

def parseMetric (s : String) : Option Metric :=
  if s == "e" then some .euclid else if s == "m" then some .manh else none

def showOptNat : Option Nat → String
  | none => "nan"
  | some d => toString d

/-- `prox H= W= sx= sy= metric=e|m max=inf|<⌈2·max²⌉> vals=<HxW grid> tv=<list> xs=<floats> ys=<floats>`
    -> `P=<squared proximity grid>;A=<flat index r*W+c of the recorded target or -1>;D=<bearing grid>` -/
def cmdProx (a : Args) : String := Id.run do
  let some h := a.nat? "H" | return "bad-args H"
  let some w := a.nat? "W" | return "bad-args W"
  let some sx := a.nat? "sx" | return "bad-args sx"
  let some sy := a.nat? "sy" | return "bad-args sy"
  let some metric := (a.get? "metric") >>= parseMetric | return "bad-args metric"
  let some mx := a.get? "max" | return "bad-args max"
  let some max2x2 := (if mx == "inf" then some (none : Option Nat) else mx.toNat?.map some) | return "bad-args max"
  let some g := (a.get? "vals") >>= parseGrid parseNum | return "bad-args vals"
  if g.h ≠ h ∨ g.w ≠ w then return "bad-args shape"
  let some tv := parseList parseNum ((a.get? "tv").getD "") | return "bad-args tv"
  let some xs := (a.get? "xs") >>= parseList parseFloat | return "bad-args xs"
  let some ys := (a.get? "ys") >>= parseList parseFloat | return "bad-args ys"
  if xs.length ≠ w ∨ ys.length ≠ h then return "bad-args coords"
  let values := tv.map toVal
  let tg : Nat → Nat → Bool := fun r p =>
    decide (r < h) && decide (p < w) && isTargetVal values (toVal (g.data.getD (r * w + p) .nan))
  let c : Cfg := { H := h, W := w, sx := sx, sy := sy, metric := metric, max2x2 := max2x2 }
  let img := run c tg
  let nanF : Float := 0.0 / 0.0
  let xf : Nat → Float := fun p => xs.getD p nanF
  let yf : Nat → Float := fun r => ys.getD r nanF
  let rows := List.range h
  let cols := List.range w
  let P := rows.map fun r => cols.map fun p => showOptNat (proxAt img r p)
  let A := rows.map fun r => cols.map fun p =>
    match allocAt img r p with
    | none => "-1"
    | some t => toString (t.1 * w + t.2)
  let D := rows.map fun r => cols.map fun p => showFloat (directionOut xf yf img r p)
  return s!"P={showGrid id P};A={showGrid id A};D={showGrid id D}"

/-- `proxall H= W= sx= sy= metric= max=` -> `true|false`: model = exact on all 2^(H·W) layouts (evaluated, not proved) -/
def cmdProxAll (a : Args) : String := Id.run do
  let some h := a.nat? "H" | return "bad-args H"
  let some w := a.nat? "W" | return "bad-args W"
  let some sx := a.nat? "sx" | return "bad-args sx"
  let some sy := a.nat? "sy" | return "bad-args sy"
  let some metric := (a.get? "metric") >>= parseMetric | return "bad-args metric"
  let some mx := a.get? "max" | return "bad-args max"
  let some max2x2 := (if mx == "inf" then some (none : Option Nat) else mx.toNat?.map some) | return "bad-args max"
  if h * w > 20 then return "bad-args too-large"
  return toString (checkAll { H := h, W := w, sx := sx, sy := sy, metric := metric, max2x2 := max2x2 })

def handlers : List (String × (Args → String)) := [("prox", cmdProx), ("proxall", cmdProxAll)]

end XrsVerif.Driver.Proximity
