import XrsVerif.Core.Wire
import XrsVerif.Model.AStar
/-! driver commands for the A* model (C14) -/
namespace XrsVerif.Driver.AStarCmd
open XrsVerif XrsVerif.Wire XrsVerif.AStar

def numToVal : Num → Val
  | .nan => .nan
  | .pinf => .pinf
  | .ninf => .ninf
  | .fin q => .fin q

/-- cells and barriers are exact extended numbers (any surface dtype, any Python number in the list) -/
def crossOf (g : GridOf Num) (barriers : List Num) : Option (Cell → Bool) := do
  let bs := barriers.map numToVal
  let arr := (g.data.toList.map fun v => !notCrossableV (numToVal v) bs).toArray
  some fun c => if inside g.h g.w c then arr.getD (c.1.toNat * g.w + c.2.toNat) false else false

def finRat? (a : Args) (k : String) : Option Rat :=
  match a.num? k with
  | some (.fin q) => some q
  | _ => none

def finRats? (a : Args) (k : String) : Option (List Rat) := do
  let xs ← a.nums? k
  xs.mapM fun | .fin q => some q | _ => none

def showCell (c : Cell) : String := s!"{c.1},{c.2}"

def rasterRows {C} (h w : Nat) (r : Cell → Option C) : List (List (Option C)) :=
  (List.range h).map fun (i : Nat) => (List.range w).map fun (j : Nat) => r ((i : Int), (j : Int))

def showOutcome {C} (h w : Nat) (sh : C → String) : Outcome C → String
  | .anomaly what => s!"anomaly:{what}"
  | o => showGrid (fun v => match v with | none => "nan" | some x => sh x) (rasterRows h w o.raster)

def showQ2 (q : Q2) : String := s!"{q.1}+{q.2}"

/-- `pixelid c0=<rat> cell=<rat> p=<rat>` -> index -/
def cmdPixelId (a : Args) : String := Id.run do
  let some c0 := finRat? a "c0" | return "bad-args c0"
  let some cs := finRat? a "cell" | return "bad-args cell"
  let some p := finRat? a "p" | return "bad-args p"
  if cs ≤ 0 then return "bad-args cell<=0"
  return toString (pixelId c0 cs p)

/-- `nearest data=<grid> barriers=<list> py= px=` -> `y,x` or `none` -/
def cmdNearest (a : Args) : String := Id.run do
  let some g := (a.get? "data") >>= parseGrid parseNum | return "bad-args data"
  let some bs := a.nums? "barriers" | return "bad-args barriers"
  let some cross := crossOf g bs | return "bad-args data-values"
  let some py := a.int? "py" | return "bad-args py"
  let some px := a.int? "px" | return "bad-args px"
  match findNearest g.h g.w cross (py, px) with
  | none => return "none"
  | some c => return showCell c

/-- the cell size `get_dataarray_resolution` returns: the `res` attribute when given, otherwise
    `(max - min) / (n - 1)` (= |step|; `n = 1` divides by zero) -/
def cellSizes (a : Args) (h w : Nat) (ystep xstep : Rat) : Except String (Rat × Rat) :=
  match finRat? a "resy", finRat? a "resx" with
  | some ry, some rx => .ok (ry, rx)
  | _, _ => if h ≤ 1 ∨ w ≤ 1 then .error "err:ZeroDivisionError" else .ok (absR ystep, absR xstep)

/-- `astar data=<grid> barriers=<list> conn=4|8 y0= ystep= x0= xstep= [resy= resx=]
          sy= sx= gy= gx= snaps=0|1 snapg=0|1`
    -> `err:<Exception>` | `ok start=y,x goal=y,x F=<grid> Q=<grid>` -/
def cmdAStar (a : Args) : String := Id.run do
  let some g := (a.get? "data") >>= parseGrid parseNum | return "bad-args data"
  let some bs := a.nums? "barriers" | return "bad-args barriers"
  let some cross := crossOf g bs | return "bad-args data-values"
  let some conn := a.nat? "conn" | return "bad-args conn"
  if conn ≠ 4 ∧ conn ≠ 8 then return "err:ValueError"
  let some y0 := finRat? a "y0" | return "bad-args y0"
  let some x0 := finRat? a "x0" | return "bad-args x0"
  let some ystep := finRat? a "ystep" | return "bad-args ystep"
  let some xstep := finRat? a "xstep" | return "bad-args xstep"
  let some sy := finRat? a "sy" | return "bad-args sy"
  let some sx := finRat? a "sx" | return "bad-args sx"
  let some gy := finRat? a "gy" | return "bad-args gy"
  let some gx := finRat? a "gx" | return "bad-args gx"
  let some snaps := a.nat? "snaps" | return "bad-args snaps"
  let some snapg := a.nat? "snapg" | return "bad-args snapg"
  match cellSizes a g.h g.w ystep xstep with
  | .error e => return e
  | .ok (cy, cx) =>
    if cy ≤ 0 ∨ cx ≤ 0 then return "bad-args cellsize<=0"
    let sp : Cell := (pixelId y0 cy sy, pixelId x0 cx sx)
    let gp : Cell := (pixelId y0 cy gy, pixelId x0 cx gx)
    if !inside g.h g.w sp then return "err:ValueError"
    if !inside g.h g.w gp then return "err:ValueError"
    let oF := runCells opsFloat g.h g.w cross conn sp gp (snaps == 1) (snapg == 1)
    let oQ := runCells opsQ2 g.h g.w cross conn sp gp (snaps == 1) (snapg == 1)
    return s!"ok start={showCell sp} goal={showCell gp} F={showOutcome g.h g.w showFloat oF} Q={showOutcome g.h g.w showQ2 oQ}"

def handlers : List (String × (Args → String)) :=
  [("astar", cmdAStar), ("pixelid", cmdPixelId), ("nearest", cmdNearest)]

end XrsVerif.Driver.AStarCmd
