import XrsVerif.Core.Wire
import XrsVerif.Model.Regions
/-! driver commands for the `zonal.regions` model (C16) -/
namespace XrsVerif.Driver.RegionsCmd
open XrsVerif XrsVerif.Wire XrsVerif.Regions

def rtol : Rat := 1 / 100000
def atol : Rat := 1 / 100000000

def absR (q : Rat) : Rat := if q < 0 then -q else q

/-- `abs(a - c) <= atol + rtol*abs(c)` with IEEE semantics for the infinities
    (inf <= inf holds, inf - inf is NaN and compares false); NaN never reaches here -/
def isClose (c a : Num) : Bool :=
  match c, a with
  | .fin c, .fin a => decide (absR (a - c) ≤ atol + rtol * absR c)
  | .fin _, _ => false
  | .pinf, .pinf => false
  | .ninf, .ninf => false
  | .nan, _ => false
  | _, .nan => false
  | _, _ => true

/-- distinct non-NaN values of a raster (in order of first occurrence) -/
def distinctVals (vals : Array Num) : Array Num :=
  vals.foldl (fun acc v => match v with
    | .nan => acc
    | _ => if acc.contains v then acc else acc.push v) #[]

/-- The model is generic in the value type and the closeness test.  The driver runs it on value
    *indices* with the closeness test tabulated once per request (the rational arithmetic of
    `isClose` would otherwise dominate the run time): cell value = index into `distinct`,
    `m i j = isClose distinct[i] distinct[j]`. -/
def tabulate (vals : Array Num) : (Nat → Option Nat) × (Nat → Nat → Bool) :=
  let ds := distinctVals vals
  let k := ds.size
  let table : Array Bool := Id.run do
    let mut t := Array.mkEmpty (k * k)
    for c in ds do
      for a in ds do
        t := t.push (isClose c a)
    return t
  let idx : Array (Option Nat) := vals.map fun v => match v with
    | .nan => none
    | _ => ds.idxOf? v
  (fun i => (idx.getD i none), fun c a => table.getD (c * k + a) false)

def showLab : Option Nat → String
  | none => "nan"
  | some k => toString k

/-- `regions n=4|8 g=HxW:...` -> `HxW:` labels (nan at NaN cells); `err:ValueError` for another n -/
def cmdRegions (a : Args) : String := Id.run do
  let some n := a.int? "n" | return "bad-args n"
  let some g := a.get? "g" >>= parseGrid parseNum | return "bad-args g"
  if n ≠ 4 ∧ n ≠ 8 then return "err:ValueError"
  let (idx, m) := tabulate g.data
  let labs := regionsList g.h g.w (n == 8) m (fun c => idx (c.1 * g.w + c.2))
  return s!"{g.h}x{g.w}:" ++ ",".intercalate (labs.map showLab)

/-- `regions_enum rows=R cols=C n=4|8 alphabet=v,v,... from=T0 count=K`: the labelling of raster
    number `t` for `t = T0 .. T0+K-1`, where cell `i` (row-major) of raster `t` holds
    `alphabet[(t / k^i) % k]`; reply: all labels, comma separated, `0` at NaN cells -/
def cmdRegionsEnum (a : Args) : String := Id.run do
  let some rows := a.nat? "rows" | return "bad-args rows"
  let some cols := a.nat? "cols" | return "bad-args cols"
  let some n := a.nat? "n" | return "bad-args n"
  let some alpha := a.nums? "alphabet" | return "bad-args alphabet"
  let some t0 := a.nat? "from" | return "bad-args from"
  let some cnt := a.nat? "count" | return "bad-args count"
  if n ≠ 4 ∧ n ≠ 8 then return "err:ValueError"
  let k := alpha.length
  if k = 0 then return "bad-args alphabet"
  let al := alpha.toArray
  let mut out : Array String := Array.mkEmpty (cnt * rows * cols)
  for dt in [0:cnt] do
    let t := t0 + dt
    -- digits of t in base k, one per cell
    let mut digs : Array Num := Array.mkEmpty (rows * cols)
    let mut r := t
    for _ in [0:rows * cols] do
      digs := digs.push (al.getD (r % k) .nan)
      r := r / k
    let (idx, m) := tabulate digs
    for l in regionsList rows cols (n == 8) m (fun c => idx (c.1 * cols + c.2)) do
      out := out.push (match l with | none => "0" | some v => toString v)
  return ",".intercalate out.toList

def handlers : List (String × (Args → String)) :=
  [("regions", cmdRegions), ("regions_enum", cmdRegionsEnum)]

end XrsVerif.Driver.RegionsCmd
