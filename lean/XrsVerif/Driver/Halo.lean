import XrsVerif.Core.Wire
import XrsVerif.Core.Halo
import XrsVerif.Gen.Kernels
/-! driver commands for the dask model: the halo block dask should deliver, and a generated kernel
    mapped over an arbitrary chunking by the *model* `mapOverlap` (evaluated at `Float`) -/
namespace XrsVerif.Driver.Halo
open XrsVerif XrsVerif.Wire

def nanF : Float := 0.0 / 0.0

def toGrid (g : GridOf Float) : Grid Float :=
  { h := g.h, w := g.w, cell := fun i j => g.getI nanF i j }

def gridRows {α} (g : Grid α) : List (List α) :=
  (List.range g.h).map fun (i : Nat) => (List.range g.w).map fun (j : Nat) => g.cell (i : Int) (j : Int)

/-- `haloblock a=<grid> dr= dc= r0= hh= c0= ww=` -> the NaN-padded block of the model -/
def cmdHaloBlock (a : Args) : String := Id.run do
  let some g := a.get? "a" >>= parseGrid parseFloat | return "bad-args a"
  let some dr := a.nat? "dr" | return "bad-args dr"
  let some dc := a.nat? "dc" | return "bad-args dc"
  let some r0 := a.nat? "r0" | return "bad-args r0"
  let some hh := a.nat? "hh" | return "bad-args hh"
  let some c0 := a.nat? "c0" | return "bad-args c0"
  let some ww := a.nat? "ww" | return "bad-args ww"
  return showGrid showFloat (gridRows (haloBlock nanF dr dc (toGrid g) r0 hh c0 ww))

def parseChunks (s : String) : Option (List Nat) := (s.splitOn "+").mapM String.toNat?

/-- `overlap name=<kernel> dr= dc= rch=1+2 cch=3 s:<scalar>=v a:<array>=grid v:<vec>=list`
    -> `mapOverlap` of the generated kernel over that chunking (model of the dask path) -/
def cmdOverlap (a : Args) : String := Id.run do
  let some nm := a.get? "name" | return "bad-args name"
  let some (_, k) := Gen.allKernels.find? (·.1 == nm) | return s!"bad-kernel {nm}"
  let some dr := a.nat? "dr" | return "bad-args dr"
  let some dc := a.nat? "dc" | return "bad-args dc"
  let some rch := a.get? "rch" >>= parseChunks | return "bad-args rch"
  let some cch := a.get? "cch" >>= parseChunks | return "bad-args cch"
  let scal := (a.withPrefix "s:").filterMap fun (n, v) => (parseFloat v).map (n, ·)
  let arrs := (a.withPrefix "a:").filterMap fun (n, v) => (parseGrid parseFloat v).map (n, ·)
  let vecs := (a.withPrefix "v:").filterMap fun (n, v) => (parseList parseFloat v).map (n, ·)
  if scal.length ≠ (a.withPrefix "s:").length ∨ arrs.length ≠ (a.withPrefix "a:").length
      ∨ vecs.length ≠ (a.withPrefix "v:").length then return "bad-args value"
  let some (_, g0) := arrs.head? | return "bad-args no array"
  if rch.sum ≠ g0.h ∨ cch.sum ≠ g0.w then return "bad-args chunks"
  let env : String → Float := fun n => ((scal.find? (·.1 == n)).map (·.2)).getD nanF
  let vec : String → List Float := fun n => ((vecs.find? (·.1 == n)).map (·.2)).getD []
  let g : Grid (String → Float) :=
    { h := g0.h, w := g0.w,
      cell := fun i j n => match arrs.find? (·.1 == n) with
        | some (_, ga) => ga.getI nanF i j
        | none => nanF }
  let out := mapOverlap (fun _ => nanF) nanF dr dc (k.runG env vec) rch cch g
  return showGrid showFloat (gridRows out)

def handlers : List (String × (Args → String)) := [("haloblock", cmdHaloBlock), ("overlap", cmdOverlap)]

end XrsVerif.Driver.Halo
