import XrsVerif.Core.Wire
import XrsVerif.Model.Terrain
/-! driver commands for C08: the generated terrain wirings / kernels and the resolution model at `Float` -/
namespace XrsVerif.Driver.Terrain
open XrsVerif XrsVerif.Wire

def nanF : Float := 0.0 / 0.0

/-- `terrain fn=<slope|aspect|curvature|hillshade> rows=R cols=C resx=v resy=v p:<public scalar>=v data=grid`
    -> output grid of the public function as modelled by the generated wiring + kernel -/
def cmdTerrain (a : Args) : String := Id.run do
  let some fn := a.get? "fn" | return "bad-args fn"
  let some (_, w) := Gen.terrainWirings.find? (·.1 == fn) | return s!"bad-fn {fn}"
  let some rows := a.nat? "rows" | return "bad-args rows"
  let some cols := a.nat? "cols" | return "bad-args cols"
  let some resx := a.float? "resx" | return "bad-args resx"
  let some resy := a.float? "resy" | return "bad-args resy"
  let some g := (a.get? "data") >>= parseGrid parseFloat | return "bad-args data"
  if g.h ≠ rows ∨ g.w ≠ cols then return "bad-args shape"
  let pubs := (a.withPrefix "p:").filterMap fun (n, v) => (parseFloat v).map (n, ·)
  if pubs.length ≠ (a.withPrefix "p:").length then return "bad-args value"
  let pub : String → Float := fun n => ((pubs.find? (·.1 == n)).map (·.2)).getD nanF
  return showGrid showFloat (w.run rows cols resx resy pub (fun i j => g.getI nanF i j))

/-- `tcell fn=… resx=v resy=v p:…=v w=3x3grid` -> the centre cell of a 3×3 window -/
def cmdTCell (a : Args) : String := Id.run do
  let some fn := a.get? "fn" | return "bad-args fn"
  let some (_, w) := Gen.terrainWirings.find? (·.1 == fn) | return s!"bad-fn {fn}"
  let some resx := a.float? "resx" | return "bad-args resx"
  let some resy := a.float? "resy" | return "bad-args resy"
  let some g := (a.get? "w") >>= parseGrid parseFloat | return "bad-args w"
  if g.h ≠ 3 ∨ g.w ≠ 3 then return "bad-args shape"
  let pubs := (a.withPrefix "p:").filterMap fun (n, v) => (parseFloat v).map (n, ·)
  let pub : String → Float := fun n => ((pubs.find? (·.1 == n)).map (·.2)).getD nanF
  return showFloat (w.cell resx resy pub (fun dy dx => g.getI nanF (dy + 1) (dx + 1)))

/-- `resolution attr=<pair|scalar|other> ax=v ay=v xmin=v xmax=v ymin=v ymax=v h=H w=W` -> `x,y` -/
def cmdResolution (a : Args) : String := Id.run do
  let f := fun k => (a.float? k).getD nanF
  let attr : Terrain.ResAttr Float :=
    match a.get? "attr" with
    | some "pair" => .pair (f "ax") (f "ay")
    | some "scalar" => .scalar (f "ax")
    | _ => .other
  let (x, y) := Terrain.resolution attr (f "xmin") (f "xmax") (f "ymin") (f "ymax") (f "h") (f "w")
  return s!"{showFloat x},{showFloat y}"

/-- `tfacts` -> the structural facts the harness cross-checks against observation -/
def cmdFacts (_ : Args) : String :=
  let ws := Gen.terrainWirings.map fun (n, w) =>
    s!"{n}:{w.kernel.name}:{w.kernel.top}{w.kernel.bottom}{w.kernel.left}{w.kernel.right}:{w.daskDepth}"
  ";".intercalate ws ++ "|" ++ ";".intercalate (Gen.summarize_calls.map fun (s, f) => s!"{s}={f}")

def handlers : List (String × (Args → String)) :=
  [("terrain", cmdTerrain), ("tcell", cmdTCell), ("resolution", cmdResolution), ("tfacts", cmdFacts)]

end XrsVerif.Driver.Terrain
