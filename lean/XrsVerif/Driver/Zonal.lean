import XrsVerif.Core.Wire
import XrsVerif.Model.Crosstab
import XrsVerif.Gen.Zonal
/-!
  driver commands for C02 / C03 / C04 (zonal stats, dask zonal tables, crosstab), evaluated over `Rat`.

  Common arguments
    zones=v,v,..      flat row-major zone raster (nan | inf | -inf | exact numbers)
    values=v,v,..     flat value raster              (3-D: layers=label:v,v,..;label:v,v,..)
    nodata=none|v     zone_ids=none|a,b,..  cat_ids=none|a,b,..  (`-` = the empty list)
    perm=auto|i,i,..  what np.argsort returned (checked against its contract); auto = a stable sort
    w=W zr=..,zc=..,vr=..,vc=..   raster width and the chunk sizes of zones / values (dask commands)
    d1= d2= d3= d4= d12=  0|1    override the structural facts of Gen/Zonal.lean (default: the facts)
  Replies are canonical single lines; `err:<Kind>` when the real code raises.
-/
namespace XrsVerif.Driver.ZonalCmd
open XrsVerif XrsVerif.Wire XrsVerif.Zonal

abbrev R := Rat

def toX : Num → X R
  | .nan => .nan | .pinf => .pinf | .ninf => .ninf | .fin q => .fin q

def showO : Option R → String
  | none => "nan"
  | some q => showRat q

def showXs (l : List R) : String := if l.isEmpty then "-" else ",".intercalate (l.map showRat)
def showOs (l : List (Option R)) : String := if l.isEmpty then "-" else ",".intercalate (l.map showO)
def showNs (l : List Nat) : String := if l.isEmpty then "-" else ",".intercalate (l.map toString)

/-- `none` | `-` (empty) | list of finite numbers; anything non-finite in the list is dropped
    (`x in unique_zones` is never true for NaN / inf) -/
def idList? (a : Args) (k : String) : Option (Option (List R)) :=
  match a.get? k with
  | none => some none
  | some "none" => some none
  | some "-" => some (some [])
  | some s => (parseList parseNum s).map (fun l => some (l.filterMap (fun n => (toX n).toFin?)))

def flag (a : Args) (k : String) (dflt : Bool) : Bool :=
  match a.get? k with
  | some "1" => true
  | some "0" => false
  | _ => dflt

def fixedComb : BStat → Comb
  | .max => .nanmax | .min => .nanmin | _ => .nansumNaN
def origComb : BStat → Comb
  | .max => .nanmax | .min => .nanmin | _ => .nansum

def combOf (a : Args) : BStat → Comb :=
  match a.get? "d2" with
  | some "1" => fixedComb
  | some "0" => origComb
  | _ => Gen.Zonal.comb

def parseStat : String → Option Stat
  | "mean" => some .mean | "max" => some .max | "min" => some .min | "sum" => some .sum
  | "std" => some .std | "var" => some .var | "count" => some .count | _ => none

def statName : Stat → String
  | .mean => "mean" | .max => "max" | .min => "min" | .sum => "sum" | .std => "std2" | .var => "var" | .count => "count"

/-- `std` is reported as its square (exact); the harness takes the root -/
def sqrtId : R → R := id

def fnOf (l : List (X R)) : Nat → X R := fun i => l.getD i .nan

/-- stable argsort of the cells by numpy's order -/
def insertAfter (zones : Nat → X R) (i : Nat) : List Nat → List Nat
  | [] => [i]
  | j :: js => if !(X.sortLe (zones j) (zones i)) then i :: j :: js else j :: insertAfter zones i js

def stableArgsort (zones : Nat → X R) (cells : List Nat) : List Nat :=
  cells.foldl (fun acc i => insertAfter zones i acc) []

def isPermOf (p cells : List Nat) : Bool :=
  p.length == cells.length && cells.all (fun c => p.count c == cells.count c)

def sortedBy (zones : Nat → X R) : List Nat → Bool
  | [] => true
  | [_] => true
  | i :: j :: rest => X.sortLe (zones i) (zones j) && sortedBy zones (j :: rest)

/-- perm argument: `auto` or an explicit list that must satisfy argsort's contract -/
def permOf (a : Args) (zones : Nat → X R) (cells : List Nat) : Except String (List Nat) :=
  match a.get? "perm" with
  | none => .ok (stableArgsort zones cells)
  | some "auto" => .ok (stableArgsort zones cells)
  | some s =>
    match parseList String.toNat? s with
    | none => .error "bad-args perm"
    | some p => if isPermOf p cells && sortedBy zones p then .ok p else .error "err:perm-contract"

structure In where
  zones : List (X R)
  values : List (X R)
  nodata : Option (X R)
  zoneIds : Option (List R)
  catIds : Option (List R)

def readIn (a : Args) (needValues : Bool := true) : Except String In := do
  let some zs := a.nums? "zones" | .error "bad-args zones"
  let vs ← if needValues then
      match a.nums? "values" with
      | some v => pure v
      | none => .error "bad-args values"
    else pure []
  if needValues && vs.length ≠ zs.length then .error "err:ValueError"
  let nodata ← match a.get? "nodata" with
    | none => pure none
    | some "none" => pure none
    | some s => match parseNum s with
      | some n => pure (some (toX n))
      | none => .error "bad-args nodata"
  let some zi := idList? a "zone_ids" | .error "bad-args zone_ids"
  let some ci := idList? a "cat_ids" | .error "bad-args cat_ids"
  return { zones := zs.map toX, values := vs.map toX, nodata := nodata, zoneIds := zi, catIds := ci }

def statsOf (a : Args) : Except String (List Stat) :=
  match a.get? "stats" with
  | none => .error "bad-args stats"
  | some s => match (splitList s).mapM parseStat with
    | some l => .ok l
    | none => .error "err:ValueError"

def showTable (stats : List Stat) (t : Table R (Option R)) : String :=
  s!"zone={showXs t.zone}" ++ String.join ((stats.zip t.cols).map (fun p => s!";{statName p.1}={showOs p.2}"))

/-- `zstats ...` : the DataFrame of `stats` on numpy rasters -/
def cmdStats (a : Args) : String :=
  match (do
    let inp ← readIn a
    let stats ← statsOf a
    let n := inp.zones.length
    let cells := List.range n
    let zf := fnOf inp.zones
    let perm ← permOf a zf cells
    let t := statsNumpy (flag a "d1" Gen.Zonal.stripIndices) zf (fnOf inp.values) cells (validX inp.nodata)
      (none : Option R) (stats.map (Stat.func sqrtId)) inp.zoneIds perm
    return showTable stats t : Except String String) with
  | .ok s => s
  | .error e => e

/-- `zraster ...` : `return_type='xarray.DataArray'`, one flat raster per statistic -/
def cmdRaster (a : Args) : String :=
  match (do
    let inp ← readIn a
    let stats ← statsOf a
    let n := inp.zones.length
    let cells := List.range n
    let zf := fnOf inp.zones
    let perm ← permOf a zf cells
    let rs := statsRaster (flag a "d1" Gen.Zonal.stripIndices) zf (fnOf inp.values) cells (validX inp.nodata)
      (none : Option R) (stats.map (Stat.func sqrtId)) inp.zoneIds perm
    return ";".intercalate ((stats.zip rs).map (fun p => s!"{statName p.1}={showOs (cells.map p.2)}"))
      : Except String String) with
  | .ok s => s
  | .error e => e

def chunkArgs (a : Args) : Except String (Nat × (List Nat × List Nat) × (List Nat × List Nat)) := do
  let some w := a.nat? "w" | .error "bad-args w"
  let some zr := a.nats? "zr" | .error "bad-args zr"
  let some zc := a.nats? "zc" | .error "bad-args zc"
  let vr := (a.nats? "vr").getD zr
  let vc := (a.nats? "vc").getD zc
  return (w, (zr, zc), (vr, vc))

/-- blocks with a stable per-block argsort -/
def blocksOf (align : Bool) (w : Nat) (zch vch : List Nat × List Nat) (zones : Nat → X R) : List Block :=
  let zb := gridBlocks w zch.1 zch.2
  let perms := zb.map (fun cells => stableArgsort (Block.fn cells zones) (List.range cells.length))
  pairBlocks align w zch vch perms

/-- `zdask ...` : `stats(...).compute()` on dask rasters -/
def cmdDask (a : Args) : String :=
  match (do
    let inp ← readIn a
    let stats ← statsOf a
    let (w, zch, vch) ← chunkArgs a
    let n := inp.zones.length
    let cells := List.range n
    let zf := fnOf inp.zones
    let blocks := blocksOf (flag a "align" Gen.Zonal.statsAligns) w zch vch zf
    match daskStats (flag a "d1" Gen.Zonal.stripIndices) (combOf a) sqrtId zf (fnOf inp.values) cells
        (validX inp.nodata) blocks stats inp.zoneIds with
    | some t => return showTable stats t
    | none => .error "err:raises" : Except String String) with
  | .ok s => s
  | .error e => e

def showCT (pct : Bool) (t : CTable R R Nat) (e : PExpr := Gen.Zonal.pctNumpy) : String :=
  -- percentages through the expression translated from the source, counts in the width of the breaks
  let f : CTable R R (Option R) := t.finishSrc e Gen.Zonal.stridesBits pct
  s!"zone={showXs f.zone};cats={showXs f.cats};total={showNs f.total};rows=" ++
    "|".intercalate (f.rows.map showOs)

def pctOf (a : Args) : Except String Bool :=
  match a.get? "agg" with
  | some "count" => .ok false
  | some "percentage" => .ok true
  | _ => .error "err:ValueError"

/-- `xtab ...` : 2-D `crosstab` on numpy rasters -/
def cmdXtab (a : Args) : String :=
  match (do
    let inp ← readIn a
    let pct ← pctOf a
    let cells := List.range inp.zones.length
    let zf := fnOf inp.zones
    let perm ← permOf a zf cells
    match crosstabNumpy2d (flag a "d1" Gen.Zonal.stripIndices) (flag a "d3" Gen.Zonal.catStartAlways)
        (flag a "d4" Gen.Zonal.rowsSortedNumpy) zf (fnOf inp.values) (validX inp.nodata) cells
        inp.zoneIds inp.catIds perm with
    | some t => return showCT pct t
    | none => .error "err:ValueError" : Except String String) with
  | .ok s => s
  | .error e => e

/-- `xtabdask ...` : 2-D `crosstab(...).compute()` on dask rasters -/
def cmdXtabDask (a : Args) : String :=
  match (do
    let inp ← readIn a
    let pct ← pctOf a
    let (w, zch, vch) ← chunkArgs a
    let cells := List.range inp.zones.length
    let zf := fnOf inp.zones
    let blocks := blocksOf (flag a "d12" Gen.Zonal.crosstab2dAligns) w zch vch zf
    match crosstabDask2d (flag a "d1" Gen.Zonal.stripIndices) (flag a "d3" Gen.Zonal.catStartAlways)
        (flag a "d4" Gen.Zonal.rowsSortedDask) zf (fnOf inp.values) (validX inp.nodata) cells
        inp.zoneIds inp.catIds blocks with
    | some t => return showCT pct t Gen.Zonal.pctDask
    | none => .error "err:raises" : Except String String) with
  | .ok s => s
  | .error e => e

/-- `layers=label:v,v;label:v,v` -/
def parseLayers (s : String) : Option (List (R × List (X R))) :=
  (s.splitOn ";").mapM (fun part =>
    match part.splitOn ":" with
    | [lab, body] => do
        let l ← parseNum lab
        let k ← (toX l).toFin?
        let vs ← parseList parseNum body
        some (k, vs.map toX)
    | _ => none)

/-- what `_DEFAULT_STATS[agg]` gives on the valid cells of one layer in one zone
    (empty input: count / sum are 0, mean / std / var NaN; max / min raise -- see `cmdXtab3`) -/
def agg3 (s : Stat) : List (X R) → Option R := fun l =>
  let fs := l.filterMap X.toFin?
  if fs.isEmpty then
    match s with
    | .count | .sum => some 0
    | _ => none
  else some (s.eval sqrtId fs)

def showCT3 (t : CTable3 R R (Option R)) : String :=
  s!"zone={showXs t.zone};cats={showXs t.cats};cols=" ++
    "|".intercalate (t.cols.map showOs)

/-- `xtab3 ...` : 3-D `crosstab` on numpy rasters -/
def cmdXtab3 (a : Args) : String :=
  match (do
    let inp ← readIn a (needValues := false)
    let some ls := (a.get? "layers") >>= parseLayers | .error "bad-args layers"
    if ls.any (fun l => l.2.length ≠ inp.zones.length) then .error "err:ValueError"
    let some st := (a.get? "agg") >>= parseStat | .error "err:ValueError"
    let cells := List.range inp.zones.length
    let zf := fnOf inp.zones
    let perm ← permOf a zf cells
    let layers := ls.map (fun l => (l.1, fnOf l.2))
    let run := fun (f : List (X R) → Option R) =>
      crosstabNumpy3d (flag a "d1" Gen.Zonal.stripIndices) (flag a "d4" Gen.Zonal.rowsSortedNumpy)
        zf layers (validX inp.nodata) f cells inp.zoneIds inp.catIds perm
    -- np.max / np.min of an empty selection raise ValueError inside the zone loop
    match run (agg3 .count) with
    | none => .error "err:ValueError"
    | some cnt =>
      if (st == .max || st == .min) && cnt.cols.any (fun c => c.any (fun v => v == some 0)) then .error "err:ValueError"
      else match run (agg3 st) with
        | some t => return showCT3 t
        | none => .error "err:ValueError" : Except String String) with
  | .ok s => s
  | .error e => e

/-- `xtab3dask ...` : 3-D `crosstab(...).compute()` on dask rasters (`agg='count'`) -/
def cmdXtab3Dask (a : Args) : String :=
  match (do
    let inp ← readIn a (needValues := false)
    let some ls := (a.get? "layers") >>= parseLayers | .error "bad-args layers"
    if ls.any (fun l => l.2.length ≠ inp.zones.length) then .error "err:ValueError"
    let (w, zch, vch) ← chunkArgs a
    let cells := List.range inp.zones.length
    let zf := fnOf inp.zones
    let blocks := blocksOf (flag a "align" Gen.Zonal.crosstab3dAligns) w zch vch zf
    let layers := ls.map (fun l => (l.1, fnOf l.2))
    match crosstabDask3d (flag a "d1" Gen.Zonal.stripIndices) (flag a "d4" Gen.Zonal.rowsSortedDask)
        zf layers (validX inp.nodata) cells inp.zoneIds inp.catIds blocks with
    | some t =>
      let t' : CTable3 R R (Option R) := { zone := t.zone, cats := t.cats, cols := t.cols.map (fun c => c.map (fun (n : Nat) => some ((n : Nat) : R))) }
      return showCT3 t'
    | none => .error "err:raises" : Except String String) with
  | .ok s => s
  | .error e => e

/-- `xpct total=T n=N backend=numpy|dask` : one `percentage` entry through the source's expression
    (used for rasters far too large to send: the harness sends the counts it took from a histogram) -/
def cmdPct (a : Args) : String :=
  match a.nat? "total", a.nat? "n" with
  | some t, some n =>
    let e := if a.get? "backend" == some "dask" then Gen.Zonal.pctDask else Gen.Zonal.pctNumpy
    showO (pctCell e Gen.Zonal.stridesBits t n : Option R)
  | _, _ => "bad-request"

/-- `zstrides fz=v,v,.. uz=v,v,..` : the loop program translated from `_strides` (`Gen.Zonal.stridesProg`), run by
    the interpreter of Model/ZonalLoop.lean on two arrays of finite numbers (`-` = empty); the model's `strides`
    is printed next to it -/
def cmdStrides (a : Args) : String :=
  let lst := fun (k : String) => match a.get? k with
    | some "-" => some []
    | _ => (a.nums? k).map (fun l => l.filterMap (fun n => (toX n).toFin?))
  match lst "fz", lst "uz" with
  | some fz, some uz =>
    let arrs : String → List R := fun nm => if nm = "a0" then fz else if nm = "a1" then uz else []
    let got := Gen.Zonal.stridesProg.run arrs (fz.length + 1)
    s!"ok={if Gen.Zonal.stridesProg.ok then 1 else 0};prog={showNs got};model={showNs (strides fz 0 uz)}"
  | _, _ => "bad-request"

/-- `zfacts` : the structural facts the model is run with -/
def cmdFacts (_ : Args) : String :=
  let b := fun (x : Bool) => if x then "1" else "0"
  let c := fun (x : Comb) => match x with
    | .nanmax => "nanmax" | .nanmin => "nanmin" | .nansum => "nansum" | .nansumNaN => "nansumNaN" | .unknown => "unknown"
  s!"d1={b Gen.Zonal.stripIndices} sum={c (Gen.Zonal.comb .sum)} count={c (Gen.Zonal.comb .count)} " ++
  s!"sumsq={c (Gen.Zonal.comb .sumSquares)} max={c (Gen.Zonal.comb .max)} min={c (Gen.Zonal.comb .min)} " ++
  s!"d3={b Gen.Zonal.catStartAlways} d4n={b Gen.Zonal.rowsSortedNumpy} d4d={b Gen.Zonal.rowsSortedDask} " ++
  s!"statsAligns={b Gen.Zonal.statsAligns} d12={b Gen.Zonal.crosstab2dAligns} align3={b Gen.Zonal.crosstab3dAligns}"

def handlers : List (String × (Args → String)) :=
  [("zstats", cmdStats), ("zraster", cmdRaster), ("zdask", cmdDask), ("xtab", cmdXtab),
   ("xtabdask", cmdXtabDask), ("xtab3", cmdXtab3), ("xtab3dask", cmdXtab3Dask), ("xpct", cmdPct), ("zstrides", cmdStrides), ("zfacts", cmdFacts)]

end XrsVerif.Driver.ZonalCmd
