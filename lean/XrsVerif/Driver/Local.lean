import XrsVerif.Core.Wire
import XrsVerif.Model.Local
/-! driver commands for the local.py model (C17) -/
namespace XrsVerif.Driver.LocalCmd
open XrsVerif XrsVerif.Wire XrsVerif.Local

def parseV (s : String) : Option V :=
  match parseNum s with
  | some .nan => some none
  | some (.fin q) => some (some q)
  | _ => none

def showV : V → String
  | none => "nan"
  | some q => showRat q

def parseStat (s : String) : Option Stat :=
  match s with
  | "max" => some .max | "mean" => some .mean | "median" => some .median
  | "min" => some .min | "std" => some .std | "sum" => some .sum
  | _ => none

def reshape (cols : Nat) (flat : List String) : String :=
  s!"{flat.length / cols}x{cols}:" ++ ",".intercalate flat

/-- `local op=<name> n=<cells> cols=<W> L0=<list> L1=<list> … [ref=<list>] [func=<stat>]`
    -> `HxW:…` (row-major), for combine `HxW:…|id:v;v,id:v;v`, `err:IndexError` when the call raises.
    `std` replies the population variance (the harness takes the square root). -/
def cmdLocal (a : Args) : String := Id.run do
  let some op := a.get? "op" | return "bad-args op"
  let some n := a.nat? "n" | return "bad-args n"
  let some cols := a.nat? "cols" | return "bad-args cols"
  if cols == 0 then return "bad-args cols"
  let raw := a.withPrefix "L"
  let layers := raw.filterMap fun (_, v) => parseList parseV v
  if layers.length ≠ raw.length ∨ layers.isEmpty then return "bad-args layers"
  if layers.any (·.length ≠ n) then return "bad-args layer-length"
  let out (xs : List V) : String := reshape cols (xs.map showV)
  let refV : Option (List V) := a.get? "ref" >>= parseList parseV
  let refI : Option (List Int) := a.ints? "ref"
  match op with
  | "cell_stats" =>
    let some s := a.get? "func" >>= parseStat | return "err:ValueError"
    return out (cellStats s n layers)
  | "lowest_position" => return out (lowestPosition n layers)
  | "highest_position" => return out (highestPosition n layers)
  | "lesser_frequency" =>
    let some r := refV | return "bad-args ref"
    return out (lesserFrequency r n layers)
  | "equal_frequency" =>
    let some r := refV | return "bad-args ref"
    return out (equalFrequency r n layers)
  | "greater_frequency" =>
    let some r := refV | return "bad-args ref"
    return out (greaterFrequency r n layers)
  | "rank" =>
    let some r := refI | return "bad-args ref"
    match rank r n layers with
    | some xs => return out xs
    | none => return "err:IndexError"
  | "popularity" =>
    let some r := refI | return "bad-args ref"
    match popularity r n layers with
    | some xs => return out xs
    | none => return "err:IndexError"
  | "combine" =>
    let (ids, key) := combine n layers
    let g := reshape cols (ids.map fun | none => "nan" | some k => toString k)
    let k := ",".intercalate (key.map fun (id, t) => s!"{id}:" ++ ";".intercalate (t.map showRat))
    return g ++ "|" ++ k
  | _ => return s!"bad-op {op}"

def handlers : List (String × (Args → String)) := [("local", cmdLocal)]

end XrsVerif.Driver.LocalCmd
