import XrsVerif.Core.Wire
import XrsVerif.Model.Viewshed
import XrsVerif.Model.ViewshedEvents
/-!
  driver commands for C05 (the viewshed model evaluated at `Float` on the doubles the real code
  produced; only `< <= + - * /` are used, which are IEEE-exact on both sides)

  tree wire format: preorder, comma separated; `_` = NIL; a node is the ten tokens
  `key,g0,g1,g2,a0,a1,a2,maxgrad,colour(0 red / 1 black)` followed by its left and right subtrees.
-/
namespace XrsVerif.Driver.Viewshed
open XrsVerif XrsVerif.Wire XrsVerif.Viewshed

def S : Float := -9999999999999999999999.0

/-- parse one subtree from the token list; fuel bounds the recursion -/
def parseTree : Nat → List String → Option (Tree Float × List String)
  | 0, _ => none
  | _ + 1, [] => none
  | fuel + 1, tk :: rest =>
    if tk == "_" then some (.nil, rest) else
    match rest with
    | g0 :: g1 :: g2 :: a0 :: a1 :: a2 :: mx :: c :: rest' => do
      let key ← parseFloat tk
      let g0 ← parseFloat g0
      let g1 ← parseFloat g1
      let g2 ← parseFloat g2
      let a0 ← parseFloat a0
      let a1 ← parseFloat a1
      let a2 ← parseFloat a2
      let mx ← parseFloat mx
      let (l, rest1) ← parseTree fuel rest'
      let (r, rest2) ← parseTree fuel rest1
      some (.node l ⟨key, g0, g1, g2, a0, a1, a2⟩ mx (c == "0") r, rest2)
    | _ => none

def treeOf (s : String) : Option (Tree Float) :=
  let toks := splitList s
  match parseTree (toks.length + 1) toks with
  | some (t, []) => some t
  | _ => none

def showTreeL : Tree Float → List String
  | .nil => ["_"]
  | .node l n mx c r =>
    [showFloat n.key, showFloat n.g0, showFloat n.g1, showFloat n.g2, showFloat n.a0, showFloat n.a1,
     showFloat n.a2, showFloat mx, if c then "0" else "1"] ++ showTreeL l ++ showTreeL r

def showTree (t : Tree Float) : String := ",".intercalate (showTreeL t)

def nodeOf (s : String) : Option (Node Float) :=
  match (splitList s).mapM parseFloat with
  | some [k, g0, g1, g2, a0, a1, a2] => some ⟨k, g0, g1, g2, a0, a1, a2⟩
  | _ => none

def b01 (b : Bool) : String := if b then "1" else "0"

/-- `vs_check tree=T [qk=K qa=ANG qg=G]`: invariants of a (real) tree and the model query on it -/
def cmdCheck (a : Args) : String := Id.run do
  let some ts := a.get? "tree" | return "bad-args tree"
  let some t := treeOf ts | return "bad-args tree-syntax"
  let base := s!"bst={b01 (bstB t)} augle={b01 (augLeB S t)} augleq={b01 (augLeQB S t)} exact={b01 (exactB S t)} n={t.size} " ++
    "keys=" ++ ";".intercalate (t.toList.map fun n => showFloat n.key)
  match a.float? "qk", a.float? "qa", a.float? "qg" with
  | some k, some ang, some g =>
    let q := query S t k ang g
    let spanok := t.toList.all fun n => !(decide (n.key < k)) || spans n ang || eqv (minv n) S
    return base ++ s!" q={showFloat q} vis={b01 (visT S t k ang g)} visL={b01 (visL t.toList k ang g)} spanok={b01 spanok}"
  | _, _, _ => return base

/-- `vs_ins tree=T node=k,g0,g1,g2,a0,a1,a2`: `_insert_into_tree` up to the colour fixup -/
def cmdIns (a : Args) : String := Id.run do
  let some t := (a.get? "tree") >>= treeOf | return "bad-args tree"
  let some n := (a.get? "node") >>= nodeOf | return "bad-args node"
  return showTree (leafInsert n t)

/-- `vs_del tree=T key=K`: `_delete_from_tree` up to the colour fixup -/
def cmdDel (a : Args) : String := Id.run do
  let some t := (a.get? "tree") >>= treeOf | return "bad-args tree"
  let some k := a.float? "key" | return "bad-args key"
  match delCore S k t with
  | some t' => return showTree t'
  | none => return "err:ValueError"

def pathOf (s : String) : Option (List Dir) :=
  s.toList.mapM fun c => if c == 'L' then some Dir.L else if c == 'R' then some Dir.R else none

/-- `vs_rot tree=T path=LRL.. dir=L|R`: one `_left_rotate` / `_right_rotate` at the node reached by `path` -/
def cmdRot (a : Args) : String := Id.run do
  let some t := (a.get? "tree") >>= treeOf | return "bad-args tree"
  let some p := pathOf ((a.get? "path").getD "") | return "bad-args path"
  match a.get? "dir" with
  | some "L" => return showTree (atPath (rotL S) p t)
  | some "R" => return showTree (atPath (rotR S) p t)
  | _ => return "bad-args dir"

def opOf (s : String) : Option (Op Float) :=
  match s.splitOn ":" with
  | "i" :: rest =>
    match rest.mapM parseFloat with
    | some [k, g0, g1, g2, a0, a1, a2] => some (.ins ⟨k, g0, g1, g2, a0, a1, a2⟩)
    | _ => none
  | ["d", k] => (parseFloat k).map .del
  | ["q", k, ang, g] => do
    let k ← parseFloat k
    let ang ← parseFloat ang
    let g ← parseFloat g
    some (.qry k ang g)
  | _ => none

/-- invariants along the model's own tree run: BST, AugLe, and every query finds all nearer nodes spanning -/
def invAlong : Tree Float → List (Op Float) → Bool × Bool × Bool
  | t, [] => (bstB t, augLeB S t, true)
  | t, op :: ops =>
    let (t', _) := stepT S (coreOps S) t op
    let sp := match op with
      | .qry k ang _ => t.toList.all fun n => !(decide (n.key < k)) || spans n ang || eqv (minv n) S
      | _ => true
    let (b, a, s) := invAlong t' ops
    (bstB t && b, augLeB S t && a, sp && s)

/-- `vs_sweep ops=o;o;...`: visible decisions of the L1 list model and of the L2 tree model
    (the code's operations without the colour fixups) on the same operation list -/
def cmdSweep (a : Args) : String := Id.run do
  let some os := a.get? "ops" | return "bad-args ops"
  let some ops := ((if os.isEmpty then [] else os.splitOn ";").mapM opOf) | return "bad-args op-syntax"
  let l := runL ([] : List (Node Float)) ops
  let t := runT S (coreOps S) (initTree S 0.0 (-1.0)) ops
  let (b, g, s) := invAlong (initTree S 0.0 (-1.0)) ops
  return s!"L={String.join (l.map b01)} T={String.join (t.map b01)} bst={b01 b} augle={b01 g} spanok={b01 s}"

/-! ### event geometry (Model/ViewshedEvents.lean), exact rationals -/
open XrsVerif.ViewshedEvents in
/-- `vs_events grid=HxW:v,.. vr=R vc=C ew=Q ns=Q`: the sorted event list, the observer-row buffer, the initial fill,
    the keys and the cell-level operation list of the sweep, all exact.
    `ev=row:col:ty:y2:x2:e0:e1:e2;..` (sorted) `data=e0:e1:e2;..` (per column) `init=j,..` `keys=HxW:..`
    `ops=` `*r:c` initial insert, `+r:c` insert, `?r:c` query, `-r:c` delete; `replay=1` iff the active-set discipline holds -/
def cmdEvents (a : Args) : String := Id.run do
  let some gs := a.get? "grid" | return "bad-args grid"
  let some g := parseGrid parseNum gs | return "bad-args grid-syntax"
  let some vr := a.int? "vr" | return "bad-args vr"
  let some vc := a.int? "vc" | return "bad-args vc"
  let some (.fin ew) := a.num? "ew" | return "bad-args ew"
  let some (.fin ns) := a.num? "ns" | return "bad-args ns"
  if g.data.any (fun x => match x with | .fin _ => false | _ => true) then return "err:non-finite-terrain"
  if !(0 ≤ vr ∧ vr < g.h ∧ 0 ≤ vc ∧ vc < g.w) then return "err:observer-outside"
  let T : Int → Int → Rat := fun i j => match g.getI (.fin 0) i j with | .fin q => q | _ => 0
  let evs := sortedEvents T g.h g.w vr vc
  let showEv (e : Event) : String :=
    s!"{e.row}:{e.col}:{e.ty}:{e.y2}:{e.x2}:{showRat e.e0}:{showRat e.e1}:{showRat e.e2}"
  let data := dataRow T g.h g.w vr vc
  let keys := (List.range g.h).map fun (i : Nat) => (List.range g.w).map fun (j : Nat) => key ew ns vr vc i j
  let ops := sweepOps T g.h g.w vr vc
  let showOp : COp → String
    | .ins r c true => s!"*{r}:{c}"
    | .ins r c false => s!"+{r}:{c}"
    | .qry r c => s!"?{r}:{c}"
    | .del r c => s!"-{r}:{c}"
  return "ev=" ++ ";".intercalate (evs.map showEv) ++
    " data=" ++ ";".intercalate (data.map fun (x, y, z) => s!"{showRat x}:{showRat y}:{showRat z}") ++
    " init=" ++ ",".intercalate ((initialCols g.w vc).map toString) ++
    " keys=" ++ showGrid showRat keys ++
    " ops=" ++ ";".intercalate (ops.map showOp) ++
    s!" replay={b01 (replay [] ops)}"

def handlers : List (String × (Args → String)) :=
  [("vs_check", cmdCheck), ("vs_ins", cmdIns), ("vs_del", cmdDel), ("vs_rot", cmdRot), ("vs_sweep", cmdSweep),
   ("vs_events", cmdEvents)]

end XrsVerif.Driver.Viewshed
