import XrsVerif.Core.Wire
import XrsVerif.Model.Aliasing
import XrsVerif.Gen.BufProgs
import XrsVerif.Gen.DaskKinds
/-! driver commands for C10: the abstract checker's verdict on the generated buffer programs -/
namespace XrsVerif.Driver
open XrsVerif XrsVerif.Wire XrsVerif.BP XrsVerif.Meta

def showNats (l : List Nat) : String := ",".intercalate (l.map toString)

/-- `bufprog name=<module.function>` ->
    `ok=<b> write=<inputs that may be written> ret=<inputs the result may alias> unknown=<b> size=<n> meta=<b>` -/
def cmdBufProg (a : Args) : String := Id.run do
  let some nm := a.get? "name" | return "bad-args name"
  let some e := Gen.allEntries.find? (·.name == nm) | return s!"no-entry {nm}"
  let metaOk' := match Gen.allMeta.find? (·.name == nm) with
    | some f => metaOk (paramsOf Gen.allEntries) f
    | none => false
  return s!"ok={entryOk e} write={showNats (mayWrite e.prog e.k)} ret={showNats (mayReturn e.prog e.k e.ret.data)} " ++
    s!"unknown={e.prog.hasUnknown} size={e.prog.size} meta={metaOk'} view={e.contract.retMayAlias} " ++
    s!"retc={showNats (mayReturn e.prog e.k e.ret.coords)} reta={showNats (mayReturn e.prog e.k e.ret.attrs)} k={e.k}"

/-- `bufprogs` -> the names of all generated entries -/
def cmdBufProgs (_ : Args) : String := ",".intercalate (Gen.allEntries.map (·.name))

def showMode : Mode → String
  | .fresh => "fresh" | .deep => "deep" | .shallow => "shallow" | .maybe => "maybe"

/-- `primtable` -> `name|data|coords|attrs;…`: the wrapper-level primitive table the programs were built with -/
def cmdPrimTable (_ : Args) : String :=
  ";".intercalate (Gen.primTable.map fun p => s!"{p.name}|{showMode p.data}|{showMode p.coords}|{showMode p.attrs}")

def showKinds (s : BK.KSet) : String :=
  ",".intercalate ((if s.l then ["lazy"] else []) ++ (if s.e then ["eager"] else []) ++ (if s.s then ["scalar"] else []))

/-- `daskkind name=<module.function>` -> `ok=<b> kinds=<kinds the Dask path may return | gave-up> size=<n>` -/
def cmdDaskKind (a : Args) : String := Id.run do
  let some nm := a.get? "name" | return "bad-args name"
  let some d := Gen.daskEntries.find? (·.name == nm) | return s!"no-entry {nm}"
  let kinds := match BK.mayReturnKinds d.nvars d.prog (BK.initEnv d.lazyParams) with
    | some s => showKinds s
    | none => "gave-up"
  return s!"ok={d.ok} kinds={kinds} size={d.prog.size}"

/-- `daskkinds` -> the names of all generated Dask-path entries -/
def cmdDaskKinds (_ : Args) : String := ",".intercalate (Gen.daskEntries.map (·.name))

def handlersBufProg : List (String × (Args → String)) := [("bufprog", cmdBufProg), ("bufprogs", cmdBufProgs), ("primtable", cmdPrimTable),
  ("daskkind", cmdDaskKind), ("daskkinds", cmdDaskKinds)]

end XrsVerif.Driver
