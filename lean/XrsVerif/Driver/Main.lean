import XrsVerif.Driver.All
/-! line-protocol driver: one request per line on stdin, one reply per line on stdout -/
open XrsVerif XrsVerif.Wire XrsVerif.Driver

def dispatch (cmd : String) (a : Args) : String :=
  if cmd == "ping" then "pong" else
  match allHandlers.find? (·.1 == cmd) with
  | some (_, h) => h a
  | none => s!"bad-op {cmd}"

partial def loop (h : IO.FS.Stream) (out : IO.FS.Stream) : IO Unit := do
  let line ← h.getLine
  if line.isEmpty then return ()
  let (cmd, args) := parseLine line
  out.putStrLn (dispatch cmd args)
  loop h out

def main : IO Unit := do
  let out ← IO.getStdout
  loop (← IO.getStdin) out
  out.flush
