import XrsVerif.Core.Wire
import XrsVerif.Gen.IL
/-! driver command for the generated ILang programs (layer T3): runs `Gen.IL.<prog>` at `Float`.

    `il prog=<name> [fuel=<n>] i.<var>=<int> f.<var>=<num> b.<var>=<0|1> af.<arr>=<shape>:<nums> ai.<arr>=<shape>:<ints>`
    shape = `N` (1-D) or `HxW` (2-D).  Reply: `<ctl>|<result>|...|<array parameter after the run>|...`
    (results in the order of `Prog.rets`, then every array parameter in declaration order). -/
namespace XrsVerif.Driver.ILCmd
open XrsVerif XrsVerif.Wire XrsVerif.IL

def parseShape (s : String) : Option (List Nat) :=
  (s.splitOn "x").mapM String.toNat?

def parseArr {α} (p : String → Option α) (s : String) : Option (List Nat × List α) :=
  match s.splitOn ":" with
  | [shape, body] => do
      let sh ← parseShape shape
      let xs ← parseList p body
      if xs.length == sh.foldl (· * ·) 1 then some (sh, xs) else none
  | _ => none

def showShape (sh : List Nat) : String := "x".intercalate (sh.map toString)

/-- `proximity._distance(x1, x2, y1, y2, metric)`: EUCLIDEAN = 0, MANHATTAN = 2 (anything else but
    GREAT_CIRCLE = 1), result cast to float32 as in the source; GREAT_CIRCLE is not interpreted -/
def extFn (fn : String) (x1 x2 y1 y2 : Float) (k : Int) : Float :=
  if fn == "_distance" then
    if k == 0 then (Float.sqrt ((x1 - x2) * (x1 - x2) + (y1 - y2) * (y1 - y2))).toFloat32.toFloat
    else if k == 1 then 0.0 / 0.0
    else (Float.abs (x1 - x2) + Float.abs (y1 - y2)).toFloat32.toFloat
  else 0.0 / 0.0

def initState (a : Args) : Option (State Float) := do
  let mut s : State Float := { (State.empty : State Float) with ext := extFn }
  for (k, v) in a do
    if k.startsWith "i." then
      let x ← v.toInt?
      s := { s with ienv := setS s.ienv (k.drop 2).toString x }
    else if k.startsWith "f." then
      let x ← parseFloat v
      s := { s with fenv := setS s.fenv (k.drop 2).toString x }
    else if k.startsWith "b." then
      s := { s with benv := setS s.benv (k.drop 2).toString (v == "1") }
    else if k.startsWith "af." then
      let (sh, xs) ← parseArr parseFloat v
      let n := (k.drop 3).toString
      s := { s with fa := setS s.fa n xs, shp := setS s.shp n sh }
    else if k.startsWith "ai." then
      let (sh, xs) ← parseArr String.toInt? v
      let n := (k.drop 3).toString
      s := { s with ia := setS s.ia n xs, shp := setS s.shp n sh }
  return s

def showCtl : Ctl → String
  | .run => "end" | .ret => "ret" | .brk => "brk" | .cont => "cont" | .err m => "err:" ++ m.replace " " "_"

def showVal (s : State Float) (n : String) : Ty → String
  | .int => toString (s.ienv n)
  | .num => showFloat (s.fenv n)
  | .bool => if s.benv n then "1" else "0"
  | .arrF _ => showShape (s.shp n) ++ ":" ++ ",".intercalate ((s.fa n).map showFloat)
  | .arrI _ => showShape (s.shp n) ++ ":" ++ ",".intercalate ((s.ia n).map toString)

def cmdIL (a : Args) : String := Id.run do
  let some name := a.get? "prog" | return "bad-args prog"
  let some (_, p) := Gen.IL.all.find? (·.1 == name) | return s!"bad-args unknown-program {name}"
  let some s0 := initState a | return "bad-args state"
  let fuel := (a.nat? "fuel").getD 1000000
  let s := p.run s0 fuel
  let rets := p.rets.map fun (n, t) => showVal s n t
  let arrs := p.params.filterMap fun (n, t) =>
    match t with
    | .arrF _ | .arrI _ => some (showVal s n t)
    | _ => none
  return "|".intercalate ([showCtl s.ctl, if p.ok then "ok" else "untranslated"] ++ rets ++ arrs)

def handlers : List (String × (Args → String)) := [("il", cmdIL)]

end XrsVerif.Driver.ILCmd
