import XrsVerif.Core.Wire
import XrsVerif.Gen.ProximityDask
/-! the generated halo expression of dask proximity, evaluated exactly -/
namespace XrsVerif.Driver.ProxPad
open XrsVerif XrsVerif.Wire

/-- `proxpad maxd= csx= csy=` -> `pad_rows,pad_cols` -/
def cmdPad (a : Args) : String :=
  match a.num? "maxd", a.num? "csx", a.num? "csy" with
  | some (.fin m), some (.fin x), some (.fin y) =>
      let p := Gen.proximity_dask.pad m x y
      s!"{p.1},{p.2}"
  | _, _, _ => "bad-args"

def handlers : List (String × (Args → String)) := [("proxpad", cmdPad)]

end XrsVerif.Driver.ProxPad
