import XrsVerif.Core.Wire
import XrsVerif.Model.CircleKernels
/-! driver commands of C19: distance strings, circle / annulus kernels, cell size.
    Strings travel as comma separated code points (`s=49,48,107,109` is "10km"). -/
namespace XrsVerif.Driver
open XrsVerif XrsVerif.Wire XrsVerif.DistStr XrsVerif.CircleK

def charsOf (a : Args) (k : String) : Option (List Char) :=
  (a.nats? k).map fun l => l.map Char.ofNat

def showChars (s : List Char) : String := ".".intercalate (s.map fun c => toString c.toNat)

def showPyFloat : PyFloat → String
  | .nan => "nan" | .pinf => "inf" | .ninf => "-inf"
  | .fin q => showRat q

def showDist : Dist → String
  | .err st => s!"err:{st}"
  | .val v => s!"val:{showPyFloat v}"

/-- `getdist s=<cps>` -> `val:<number>` | `err:<stage>` -/
def cmdGetDist (a : Args) : String :=
  match charsOf a "s" with
  | none => "bad-args s"
  | some s => showDist (getDistance roundF64 s)

/-- `resplit s=<cps>` -> the pieces of re.split, `t<cps>` / `n<cps>` joined by `|` -/
def cmdReSplit (a : Args) : String :=
  match charsOf a "s" with
  | none => "bad-args s"
  | some s => "|".intercalate ((reSplit s).map fun
      | .txt t => "t" ++ showChars t
      | .num t => "n" ++ showChars t)

def ratArg (a : Args) (k : String) : Option Rat :=
  match a.num? k with
  | some (.fin q) => some q
  | _ => none

def showKGrid (r : Except String (KGrid Float)) : String :=
  match r with
  | .error e => s!"err:{e}"
  | .ok g => showGrid showFloat g.toRows

/-- `ellipse hw=<int> hh=<int>` -/
def cmdEllipse (a : Args) : String :=
  match a.int? "hw", a.int? "hh" with
  | some hw, some hh => showKGrid (ellipseKernel hw hh)
  | _, _ => "bad-args"

/-- `circle cx=<num> cy=<num> r=<cps of str(radius)>` -/
def cmdCircle (a : Args) : String :=
  match ratArg a "cx", ratArg a "cy", charsOf a "r" with
  | some cx, some cy, some r => showKGrid (circleKernel roundF64 cx cy (getDistance roundF64 r))
  | _, _, _ => "bad-args"

/-- `annulus cx=<num> cy=<num> ro=<cps> ri=<cps>` -/
def cmdAnnulus (a : Args) : String :=
  match ratArg a "cx", ratArg a "cy", charsOf a "ro", charsOf a "ri" with
  | some cx, some cy, some ro, some ri => showKGrid (annulusKernel roundF64 cx cy (getDistance roundF64 ro) (getDistance roundF64 ri))
  | _, _, _, _ => "bad-args"

/-- `cellsize unit=<cps>|none rx=<num> ry=<num>` -> `x,y` | `err:KeyError` -/
def cmdCellsize (a : Args) : String :=
  let unit := if a.get? "unit" == some "none" then some none else (charsOf a "unit").map some
  match unit, ratArg a "rx", ratArg a "ry" with
  | some u, some rx, some ry =>
    match calcCellsize roundF64 u rx ry with
    | none => "err:KeyError"
    | some (x, y) => s!"{showRat x},{showRat y}"
  | _, _, _ => "bad-args"

/-- `half cx=<num> cy=<num> r=<cps>` -> the exact quotients `r/cx,r/cy` whose truncations are the
    half widths (`-` when the radius is rejected / not finite or a cell size is 0) -/
def cmdHalf (a : Args) : String :=
  match ratArg a "cx", ratArg a "cy", charsOf a "r" with
  | some cx, some cy, some r =>
    match getDistance roundF64 r with
    | .val (.fin q) => if cx = 0 ∨ cy = 0 then "-" else s!"{showRat (roundF64 (q / cx))},{showRat (roundF64 (q / cy))}"
    | _ => "-"
  | _, _, _ => "bad-args"

/-- `round q=<num>` -> the binary64 value nearest to `q` (validates `roundF64` against Python) -/
def cmdRound (a : Args) : String :=
  match ratArg a "q" with
  | some q => showRat (roundF64 q)
  | none => "bad-args"

def handlersMetrics : List (String × (Args → String)) :=
  [("getdist", cmdGetDist), ("resplit", cmdReSplit), ("ellipse", cmdEllipse), ("circle", cmdCircle),
   ("annulus", cmdAnnulus), ("cellsize", cmdCellsize), ("half", cmdHalf), ("round", cmdRound)]

end XrsVerif.Driver
