import XrsVerif.Core.Wire
import XrsVerif.Model.Bin
import XrsVerif.Model.Jenks
import XrsVerif.Model.PyNum
import XrsVerif.Gen.ClassifyFacts
/-! driver commands for C12: the bin search (under the skeleton regenerated from the source), the
    classifiers' bin construction, the Jenks matrices and break extraction -/
namespace XrsVerif.Driver.Classify
open XrsVerif XrsVerif.Wire XrsVerif.Bin

def toExt : Num → Ext Rat
  | .nan => .nan | .pinf => .pinf | .ninf => .ninf | .fin q => .fin q

def ofExt : Ext Rat → Num
  | .nan => .nan | .pinf => .pinf | .ninf => .ninf | .fin q => .fin q

def showExts (l : List (Ext Rat)) : String := ",".intercalate (l.map (showNum ∘ ofExt))
def showRats (l : List Rat) : String := ",".intercalate (l.map showRat)

def fins? (l : List Num) : Option (List Rat) := l.mapM fun | .fin q => some q | _ => none

def showRes : Res → String
  | .ok cls bins => showExts cls ++ "|" ++ showRats bins
  | .err k => "err:" ++ k

/-- conversion of a value into a numpy dtype (finite values; float -> int conversions are not modelled) -/
def castTo (t : String) : Ext Rat → Ext Rat
  | .fin q => if t == "float32" then .fin (roundF32 q) else if t == "float64" then .fin (roundF64 q) else .fin q
  | x => x

/-- `bin bins=<nums> newv=<nums> vals=<nums> [ddt=<raster dtype>]` -> the `_cpu_bin` output for each value;
    with `ddt` the request goes through `_run_numpy_bin`'s casts as found in the source -/
def cmdBin (a : Args) : String := Id.run do
  let some bins := a.nums? "bins" | return "bad-args bins"
  let some newv := a.nums? "newv" | return "bad-args newv"
  let some vals := a.nums? "vals" | return "bad-args vals"
  if bins.isEmpty then return "err:empty-bins"
  let sh := if a.get? "shape" == some "canonical" then canonical else Gen.cpuBinShape
  match a.get? "ddt" with
  | some ddt =>
    return showExts (vals.map fun v => runNumpyBin sh Gen.runBinCasts castTo ddt (bins.map toExt) (newv.map toExt) (toExt v))
  | none => return showExts (vals.map fun v => cellS sh (bins.map toExt) (newv.map toExt) (toExt v))

/-- `round32 q=<num>` -> `np.float32` of the number (exact rational out) -/
def cmdRound32 (a : Args) : String :=
  match a.num? "q" with
  | some (.fin q) => showRat (roundF32 q)
  | _ => "bad-args q"

/-- `equal_interval cells=<nums> k=K` -/
def cmdEqualInterval (a : Args) : String := Id.run do
  let some cells := a.nums? "cells" | return "bad-args cells"
  let some k := a.nat? "k" | return "bad-args k"
  return showRes (equalInterval Gen.cpuBinShape (cells.map toExt) k)

/-- `quantile cells=<nums> qs=<finite nums> k=K` -/
def cmdQuantile (a : Args) : String := Id.run do
  let some cells := a.nums? "cells" | return "bad-args cells"
  let some qs := a.nums? "qs" >>= fins? | return "bad-args qs"
  let some k := a.nat? "k" | return "bad-args k"
  return showRes (quantile Gen.cpuBinShape (cells.map toExt) qs k)

/-- `natural_breaks cells=<nums> sample=<finite nums> k=K` (breaks stored exactly) -/
def cmdNaturalBreaks (a : Args) : String := Id.run do
  let some cells := a.nums? "cells" | return "bad-args cells"
  let some sample := a.nums? "sample" >>= fins? | return "bad-args sample"
  let some k := a.nat? "k" | return "bad-args k"
  return showRes (Jenks.naturalBreaks Gen.cpuBinShape id (cells.map toExt) sample k)

/-- `jenks_mat xs=<sorted finite nums> k=K` -> `V rows ; ... | L rows ; ...` (rows l = 0..n, columns j = 1..K) -/
def cmdJenksMat (a : Args) : String := Id.run do
  let some xs := a.nums? "xs" >>= fins? | return "bad-args xs"
  let some k := a.nat? "k" | return "bad-args k"
  let n := xs.length
  let x : Nat → Rat := fun i => xs.getD i 0
  let cols := (List.range k).map fun j => Jenks.col x n j
  let row (f : Rat × Nat → String) (l : Nat) : String :=
    ",".intercalate (cols.map fun c => f (c.getD l (0, 0)))
  let vs := ";".intercalate ((List.range (n + 1)).map (row fun p => showRat p.1))
  let ls := ";".intercalate ((List.range (n + 1)).map (row fun p => toString p.2))
  return vs ++ "|" ++ ls

/-- `jenks_breaks xs=<finite nums, any order> k=K` -> `kclass` -/
def cmdJenksBreaks (a : Args) : String := Id.run do
  let some xs := a.nums? "xs" >>= fins? | return "bad-args xs"
  let some k := a.nat? "k" | return "bad-args k"
  match Jenks.kclass (Jenks.sortQ xs) k with
  | some kc => return showRats kc
  | none => return "err:degenerate"

/-- `class_facts` -> the generated facts the theorems rely on -/
def cmdFacts (_ : Args) : String :=
  s!"shape_ok={Gen.cpuBinShape.ok} canonical={decide (Gen.cpuBinShape = canonical)} kclass={Gen.jenksBreakDtype} " ++
  s!"nb_jenks={Gen.nbLastForcedJenks} nb_fallback={Gen.nbLastForcedFallback} qgrid={Gen.quantileGridIndexed} " ++
  s!"eqint={Gen.eqIntLastForced} casts={decide (Gen.runBinCasts = ⟨.none, .none, .none, true⟩)} chain={Gen.binChainPassThrough}"

def handlers : List (String × (Args → String)) := [
  ("bin", cmdBin), ("equal_interval", cmdEqualInterval), ("quantile", cmdQuantile),
  ("natural_breaks", cmdNaturalBreaks), ("jenks_mat", cmdJenksMat), ("jenks_breaks", cmdJenksBreaks),
  ("class_facts", cmdFacts), ("round32", cmdRound32)]

end XrsVerif.Driver.Classify
