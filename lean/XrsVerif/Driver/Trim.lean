import XrsVerif.Core.Wire
import XrsVerif.Model.Trim
/-! driver commands for the trim / crop model (C18) -/
namespace XrsVerif.Driver.TrimCmd
open XrsVerif XrsVerif.Wire XrsVerif.Trim

def toRaster (g : GridOf Num) (ys xs : List Num) (attrs : String) : Raster Num String :=
  ⟨g.h, g.w, fun y x => g.data.getD (y * g.w + x) .nan, fun y => ys.getD y .nan, fun x => xs.getD x .nan, attrs⟩

def showBounds (b : Bounds) : String := s!"{b.top},{b.bottom},{b.left},{b.right}"

def showWindow (w : Window Num String) : String :=
  if w.cells.flatten.isEmpty then s!"empty|{w.attrs}|{w.name}"
  else showGrid showNum w.cells ++ "|" ++ ",".intercalate (w.ys.map showNum) ++ "|"
    ++ ",".intercalate (w.xs.map showNum) ++ s!"|{w.attrs}|{w.name}"

/-- `trim data=<grid> ex=<list> ys=<list> xs=<list> attrs=<tok> name=<tok>`
    -> `t,b,l,r|<cells grid>|<ys>|<xs>|attrs|name`, or `t,b,l,r|empty|attrs|name` -/
def cmdTrim (a : Args) : String := Id.run do
  let some g := a.get? "data" >>= parseGrid parseNum | return "bad-args data"
  let some ex := a.nums? "ex" | return "bad-args ex"
  let some ys := a.nums? "ys" | return "bad-args ys"
  let some xs := a.nums? "xs" | return "bad-args xs"
  if ys.length ≠ g.h ∨ xs.length ≠ g.w then return "bad-args coords"
  let r := toRaster g ys xs ((a.get? "attrs").getD "")
  return showBounds (trimBounds r ex) ++ "|" ++ showWindow (trim r ex ((a.get? "name").getD "trim"))

/-- `crop zones=<grid> values=<grid> ids=<list> ys=<list> xs=<list> attrs=<tok> name=<tok>`
    (coordinates / attrs of `values`) -/
def cmdCrop (a : Args) : String := Id.run do
  let some z := a.get? "zones" >>= parseGrid parseNum | return "bad-args zones"
  let some v := a.get? "values" >>= parseGrid parseNum | return "bad-args values"
  let some ids := a.nums? "ids" | return "bad-args ids"
  let some ys := a.nums? "ys" | return "bad-args ys"
  let some xs := a.nums? "xs" | return "bad-args xs"
  if ys.length ≠ v.h ∨ xs.length ≠ v.w then return "bad-args coords"
  let zr := toRaster z [] [] ""
  let vr := toRaster v ys xs ((a.get? "attrs").getD "")
  return showBounds (cropBounds zr ids) ++ "|" ++ showWindow (crop zr vr ids ((a.get? "name").getD "crop"))

def handlers : List (String × (Args → String)) := [("trim", cmdTrim), ("crop", cmdCrop)]

end XrsVerif.Driver.TrimCmd
