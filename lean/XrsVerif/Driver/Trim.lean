import XrsVerif.Core.Wire
import XrsVerif.Model.Trim
/-! driver commands for the trim / crop model (C18) -/
namespace XrsVerif.Driver.TrimCmd
open XrsVerif XrsVerif.Wire XrsVerif.Trim

/-- one coordinate variable `name~flags~attrs~HxW:codes` (flags: `y` / `-`, then `x` / `-`; the grid is
    `(H or 1) x (W or 1)`, labels as codes) -/
def parseCoord (s : String) : Option (Coord Num String) :=
  match s.splitOn "~" with
  | [name, flags, attrs, grid] => do
    let g ← parseGrid parseNum grid
    let onY := flags.startsWith "y"
    let onX := flags.endsWith "x"
    if flags.length ≠ 2 then none
    some ⟨name, onY, onX, fun y x => g.data.getD ((if onY then y else 0) * g.w + (if onX then x else 0)) .nan, attrs⟩
  | _ => none

def parseCoords (s : String) : Option (List (Coord Num String)) :=
  if s.isEmpty then some [] else (s.splitOn "/").mapM parseCoord

def toRaster (g : GridOf Num) (ys xs : List Num) (attrs : String) (coords : List (Coord Num String) := []) :
    Raster Num String :=
  ⟨g.h, g.w, fun y x => g.data.getD (y * g.w + x) .nan, fun y => ys.getD y .nan, fun x => xs.getD x .nan, attrs, coords⟩

def showCoord (c : WCoord Num String) : String :=
  s!"{c.name}~{if c.onY then "y" else "-"}{if c.onX then "x" else "-"}~{c.attrs}~"
    ++ (if c.vals.flatten.isEmpty then "empty" else showGrid showNum c.vals)

def showCoords (cs : List (WCoord Num String)) : String := "/".intercalate (cs.map showCoord)

def showBounds (b : Bounds) : String := s!"{b.top},{b.bottom},{b.left},{b.right}"

def showWindow (w : Window Num String) : String :=
  if w.cells.flatten.isEmpty then s!"empty|{w.attrs}|{w.name}|{showCoords w.coords}"
  else showGrid showNum w.cells ++ "|" ++ ",".intercalate (w.ys.map showNum) ++ "|"
    ++ ",".intercalate (w.xs.map showNum) ++ s!"|{w.attrs}|{w.name}|{showCoords w.coords}"

/-- `trim data=<grid> ex=<list> ys=<list> xs=<list> attrs=<tok> name=<tok> aux=<coord>/<coord>/…`
    -> `t,b,l,r|<cells grid>|<ys>|<xs>|attrs|name|<coords>`, or `t,b,l,r|empty|attrs|name|<coords>` -/
def cmdTrim (a : Args) : String := Id.run do
  let some g := a.get? "data" >>= parseGrid parseNum | return "bad-args data"
  let some ex := a.nums? "ex" | return "bad-args ex"
  let some ys := a.nums? "ys" | return "bad-args ys"
  let some xs := a.nums? "xs" | return "bad-args xs"
  if ys.length ≠ g.h ∨ xs.length ≠ g.w then return "bad-args coords"
  let some cs := parseCoords ((a.get? "aux").getD "") | return "bad-args aux"
  let r := toRaster g ys xs ((a.get? "attrs").getD "") cs
  return showBounds (trimBounds r ex) ++ "|" ++ showWindow (trim r ex ((a.get? "name").getD "trim"))

/-- `crop zones=<grid> values=<grid> ids=<list> ys=<list> xs=<list> attrs=<tok> name=<tok>`
    (coordinates / attrs of `values`) -/
def cmdCrop (a : Args) : String := Id.run do
  let some z := a.get? "zones" >>= parseGrid parseNum | return "bad-args zones"
  let some v := a.get? "values" >>= parseGrid parseNum | return "bad-args values"
  let some ids := a.nums? "ids" | return "bad-args ids"
  let some ys := a.nums? "ys" | return "bad-args ys"
  let some xs := a.nums? "xs" | return "bad-args xs"
  if ys.length ≠ v.h ∨ xs.length ≠ v.w then return "bad-args coords"
  let some cs := parseCoords ((a.get? "aux").getD "") | return "bad-args aux"
  let zr := toRaster z [] [] ""
  let vr := toRaster v ys xs ((a.get? "attrs").getD "") cs
  return showBounds (cropBounds zr ids) ++ "|" ++ showWindow (crop zr vr ids ((a.get? "name").getD "crop"))

def handlers : List (String × (Args → String)) := [("trim", cmdTrim), ("crop", cmdCrop)]

end XrsVerif.Driver.TrimCmd
