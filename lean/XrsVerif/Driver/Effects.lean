import XrsVerif.Core.Wire
import XrsVerif.Model.Effects
import XrsVerif.Gen.Effects
/-! driver commands for the effect model (C11): the footprint the model predicts for a function, and the
    model's run of a history under a concrete token semantics -/
namespace XrsVerif.Driver.Effects
open XrsVerif XrsVerif.Wire XrsVerif.Effects

def showCell : Cell → String
  | .rng => "rng"
  | .table n => s!"table:{n}"
  | .dflt n => s!"dflt:{n}"
  | .glob n => s!"glob:{n}"
  | .param n => s!"param:{n}"

def showCells (cs : List Cell) : String :=
  let xs := (cs.map showCell).eraseDups
  if xs.isEmpty then "-" else ",".intercalate (xs.toArray.qsort (· < ·)).toList

def b2s (b : Bool) : String := if b then "1" else "0"

def findSummary (n : String) : Option Summary := Gen.allSummaries.find? (·.name == n)

/-- `effects fn=<module.func>` -> what the generated summary says about the function -/
def cmdEffects (a : Args) : String := Id.run do
  let some n := a.get? "fn" | return "bad-args fn"
  let some σ := findSummary n | return s!"unknown-function {n}"
  let fresh := (σ.prog.disps.filter (·.fresh)).map (·.name)
  return s!"writes={showCells σ.prog.writes} exposed={showCells (σ.prog.exposed.filter Gen.volatile.contains)} " ++
    s!"nostale={b2s (noStale Gen.volatile [] σ.prog)} confined={b2s (confined Gen.volatile σ.prog)} " ++
    s!"public={b2s σ.isPublic} fresh={if fresh.isEmpty then "-" else ",".intercalate fresh.eraseDups} " ++
    s!"kernels={if σ.kernels.isEmpty then "-" else ",".intercalate σ.kernels}"

/-- token semantics: a seed stores `1000 + seed argument`, a draw advances by one, the result is the list
    of everything observed -/
def tokSem : Sem (String → Nat) Nat (List Nat) :=
  { seedv := fun a t => 1000 + a "seed" + t.length, adv := fun v => v + 1, mutv := fun a _ v => v + 1 + a "seed",
    capArg := fun a n => a n, sig := fun _ _ => 0, iters := fun _ _ => 1, out := fun _ t => t }

def tokArgs (seed : Nat) : String → Nat := fun k => if k == "seed" then seed else 7

def parseCall (s : String) : Option (Summary × Nat) :=
  match s.splitOn "@" with
  | [n, sd] => do
      let σ ← findSummary n
      let k ← sd.toNat?
      some (σ, k)
  | [n] => (findSummary n).map (·, 0)
  | _ => none

/-- `effhist calls=f@seed,g@seed,...` -> for every position `1` when the model's result of that call after
    the preceding calls equals its result in a fresh interpreter, else `0`; then the volatile cells that
    differ from the initial state at the end -/
def cmdHist (a : Args) : String := Id.run do
  let some cs := a.get? "calls" | return "bad-args calls"
  let some calls := (splitList cs).mapM parseCall | return "bad-args call"
  let init : Lib Nat := Lib.fresh fun _ => 0
  let mut s := init
  let mut out : List String := []
  for (σ, k) in calls do
    -- the deps restriction would hide "seed" from functions that do not list it; the token semantics
    -- passes the seed to everybody (only seeding functions use it)
    let c : Call (String → Nat) Nat (List Nat) := { prog := σ.prog, args := tokArgs k, sem := tokSem }
    let (s', r) := step s c
    let r0 := (step init c).2
    out := out ++ [b2s (r == r0)]
    s := s'
  let dirty := Gen.volatile.filter fun c => s.cells c != 0
  return s!"same={",".intercalate out} dirty={showCells dirty}"

def handlers : List (String × (Args → String)) := [("effects", cmdEffects), ("effhist", cmdHist)]

end XrsVerif.Driver.Effects
