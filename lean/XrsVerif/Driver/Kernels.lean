import XrsVerif.Core.Wire
import XrsVerif.Gen.Kernels
/-! driver commands for the generated kernels (evaluated at `Float`) -/
namespace XrsVerif.Driver
open XrsVerif XrsVerif.Wire

def nanF : Float := 0.0 / 0.0

/-- `kernel name=<k> rows=R cols=C s:<scalar>=v a:<array>=grid v:<vector>=list`  -> output grid -/
def cmdKernel (a : Args) : String := Id.run do
  let some nm := a.get? "name" | return "bad-args name"
  let some (_, k) := Gen.allKernels.find? (·.1 == nm) | return s!"bad-kernel {nm}"
  let some rows := a.nat? "rows" | return "bad-args rows"
  let some cols := a.nat? "cols" | return "bad-args cols"
  let scal := (a.withPrefix "s:").filterMap fun (n, v) => (parseFloat v).map (n, ·)
  let arrs := (a.withPrefix "a:").filterMap fun (n, v) => (parseGrid parseFloat v).map (n, ·)
  let vecs := (a.withPrefix "v:").filterMap fun (n, v) => (parseList parseFloat v).map (n, ·)
  if scal.length ≠ (a.withPrefix "s:").length ∨ arrs.length ≠ (a.withPrefix "a:").length
      ∨ vecs.length ≠ (a.withPrefix "v:").length then return "bad-args value"
  let env : String → Float := fun n => ((scal.find? (·.1 == n)).map (·.2)).getD nanF
  let get : String → Int → Int → Float := fun n i j =>
    match arrs.find? (·.1 == n) with
    | some (_, g) => g.getI nanF i j
    | none => nanF
  let vec : String → List Float := fun n => ((vecs.find? (·.1 == n)).map (·.2)).getD []
  return showGrid showFloat (k.run rows cols env get vec)

/-- `kcell name=<k> s:<scalar>=v ...` -> value or `fail:<msg>` (scalar kernels) -/
def cmdKCell (a : Args) : String := Id.run do
  let some nm := a.get? "name" | return "bad-args name"
  let some (_, k) := Gen.allKernels.find? (·.1 == nm) | return s!"bad-kernel {nm}"
  let scal := (a.withPrefix "s:").filterMap fun (n, v) => (parseFloat v).map (n, ·)
  if scal.length ≠ (a.withPrefix "s:").length then return "bad-args value"
  let env : String → Float := fun n => ((scal.find? (·.1 == n)).map (·.2)).getD nanF
  let rd : String → Int → Int → Float := fun _ _ _ => nanF
  match k.cellFailed env rd (fun _ => []) with
  | some m => return s!"fail:{m.replace " " "_"}"
  | none => return showFloat (k.cell env rd (fun _ => []))

def handlers : List (String × (Args → String)) := [("kernel", cmdKernel), ("kcell", cmdKCell)]

end XrsVerif.Driver
