import XrsVerif.Core.Wire
import XrsVerif.Model.Polygonize
import XrsVerif.Driver.Regions
/-! driver commands for the polygonize model (C15) -/
namespace XrsVerif.Driver.PolygonizeCmd
open XrsVerif XrsVerif.Wire XrsVerif.Polygonize

/-- `_is_close(reference, value)`: exact equality for two integers, else the float closeness test -/
def closeFn (isInt : Bool) (ref val : Num) : Bool :=
  if isInt then (match ref, val with
    | .fin a, .fin b => a == b
    | _, _ => false)
  else RegionsCmd.isClose ref val

structure Req where
  nx : Nat
  ny : Nat
  conn8 : Bool
  isInt : Bool
  values : Nat → Num
  mask : Nat → Bool
  transform : Option (List Rat)

def parseReq (a : Args) : Except String Req := do
  let some conn := a.int? "conn" | throw "bad-args conn"
  let some g := a.get? "g" >>= parseGrid parseNum | throw "bad-args g"
  let some dt := a.get? "dtype" | throw "bad-args dtype"
  if g.h = 0 ∨ g.w = 0 then throw "err:ValueError"
  let mask ← match a.get? "mask" with
    | none => pure (fun (_ : Nat) => true)
    | some s =>
      match parseGrid parseNum s with
      | none => throw "bad-args mask"
      | some mg =>
        if mg.h ≠ g.h ∨ mg.w ≠ g.w then throw "err:ValueError"
        else pure (fun ij => match mg.data.getD ij (.fin 0) with
          | .fin q => q != 0
          | _ => true)
  if conn ≠ 4 ∧ conn ≠ 8 then throw "err:ValueError"
  let tr ← match a.get? "t" with
    | none => pure none
    | some s =>
      match parseList parseNum s with
      | none => throw "bad-args t"
      | some l =>
        if l.length ≠ 6 then throw "err:ValueError"
        else pure (some (l.map fun n => match n with | .fin q => q | _ => 0))
  return ⟨g.w, g.h, conn == 8, dt == "int", fun ij => g.data.getD ij .nan, mask, tr⟩

def showPt (p : Rat × Rat) : String := s!"{showRat p.1}:{showRat p.2}"

/-- `polygonize conn=4|8 dtype=int|float g=HxW:... [mask=HxW:...] [t=a,b,c,d,e,f]`
    -> `col=v,.. polys=ring;ring|ring...` (ring = `x:y,x:y,...`) -/
def cmdPolygonize (a : Args) : String :=
  match parseReq a with
  | .error e => e
  | .ok r =>
    let out := polygonizeNumpy r.nx r.ny r.conn8 (closeFn r.isInt) r.values r.mask r.transform
    if !out.ok then "model-stuck" else
    let col := ",".intercalate (out.column.map showNum)
    let polys := "|".intercalate (out.polys.map fun rings =>
      ";".intercalate (rings.map fun ring => ",".intercalate (ring.map showPt)))
    s!"col={col} polys={polys}"

/-- `polyregions ...same arguments...` -> the region ids of `_calculate_regions` (no nx=1 padding) -/
def cmdPolyRegions (a : Args) : String :=
  match parseReq a with
  | .error e => e
  | .ok r =>
    let regs := calculateRegions r.nx r.ny r.conn8 (closeFn r.isInt) r.values r.mask
    s!"{r.ny}x{r.nx}:" ++ ",".intercalate (regs.map toString)

/-- integer encoding of one result (no transform): region ids, then the number of polygons, the column,
    and for every polygon its number of rings and for every ring its number of points and the points -/
def encode (regs : List Nat) (out : Output Num) : List Int :=
  let col := out.column.map fun v => match v with | .fin q => q.num | _ => (-999 : Int)
  let body := out.polys.flatMap fun rings =>
    (rings.length : Int) :: rings.flatMap fun ring =>
      (ring.length : Int) :: ring.flatMap fun p => [p.1.num, p.2.num]
  regs.map Int.ofNat ++ [(out.polys.length : Int)] ++ col ++ body

/-- `polygonize_enum rows=R cols=C conn=4|8 alphabet=v,..,m from=T0 count=K`: raster number `t` has in
    cell `i` (row-major) the symbol `alphabet[(t / k^i) % k]`; the symbol `m` is a masked-out pixel
    (value 0).  Integer dtype.  Reply: `encode` of every raster, `;`-separated. -/
def cmdPolygonizeEnum (a : Args) : String := Id.run do
  let some rows := a.nat? "rows" | return "bad-args rows"
  let some cols := a.nat? "cols" | return "bad-args cols"
  let some conn := a.nat? "conn" | return "bad-args conn"
  let some alphaS := a.get? "alphabet" | return "bad-args alphabet"
  let some t0 := a.nat? "from" | return "bad-args from"
  let some cnt := a.nat? "count" | return "bad-args count"
  if conn ≠ 4 ∧ conn ≠ 8 then return "err:ValueError"
  let syms := (splitList alphaS).toArray
  let k := syms.size
  if k = 0 then return "bad-args alphabet"
  let vals : Array Num := syms.map fun s => if s == "m" then .fin 0 else (parseNum s).getD .nan
  let msk : Array Bool := syms.map fun s => s != "m"
  let mut out : Array String := Array.mkEmpty cnt
  for dt in [0:cnt] do
    let mut r := t0 + dt
    let mut vs : Array Num := Array.mkEmpty (rows * cols)
    let mut ms : Array Bool := Array.mkEmpty (rows * cols)
    for _ in [0:rows * cols] do
      vs := vs.push (vals.getD (r % k) .nan)
      ms := ms.push (msk.getD (r % k) true)
      r := r / k
    let values : Nat → Num := fun ij => vs.getD ij .nan
    let mask : Nat → Bool := fun ij => ms.getD ij true
    let regs := calculateRegions cols rows (conn == 8) (closeFn true) values mask
    let res := polygonizeNumpy cols rows (conn == 8) (closeFn true) values mask none
    out := out.push (if res.ok then ",".intercalate ((encode regs res).map toString) else "stuck")
  return ";".intercalate out.toList

def handlers : List (String × (Args → String)) :=
  [("polygonize", cmdPolygonize), ("polyregions", cmdPolyRegions), ("polygonize_enum", cmdPolygonizeEnum)]

end XrsVerif.Driver.PolygonizeCmd
