import XrsVerif.Core.Wire
import XrsVerif.Model.Polygonize
import XrsVerif.Driver.Regions
/-! driver commands for the polygonize model (C15) -/
namespace XrsVerif.Driver.PolygonizeCmd
open XrsVerif XrsVerif.Wire XrsVerif.Polygonize

/-- `_is_close(reference, value)`: exact equality for two integers, else the float closeness test -/
def closeFn (isInt : Bool) (ref val : Num) : Bool :=
  if isInt then (match ref, val with
    | .fin a, .fin b => a == b
    | _, _ => false)
  else RegionsCmd.isClose ref val

structure Req where
  nx : Nat
  ny : Nat
  conn8 : Bool
  isInt : Bool
  values : Nat → Num
  mask : Nat → Bool
  transform : Option (List Rat)

def parseReq (a : Args) : Except String Req := do
  let some conn := a.int? "conn" | throw "bad-args conn"
  let some g := a.get? "g" >>= parseGrid parseNum | throw "bad-args g"
  let some dt := a.get? "dtype" | throw "bad-args dtype"
  if g.h = 0 ∨ g.w = 0 then throw "err:ValueError"
  let mask ← match a.get? "mask" with
    | none => pure (fun (_ : Nat) => true)
    | some s =>
      match parseGrid parseNum s with
      | none => throw "bad-args mask"
      | some mg =>
        if mg.h ≠ g.h ∨ mg.w ≠ g.w then throw "err:ValueError"
        else pure (fun ij => match mg.data.getD ij (.fin 0) with
          | .fin q => q != 0
          | _ => true)
  if conn ≠ 4 ∧ conn ≠ 8 then throw "err:ValueError"
  let tr ← match a.get? "t" with
    | none => pure none
    | some s =>
      match parseList parseNum s with
      | none => throw "bad-args t"
      | some l =>
        if l.length ≠ 6 then throw "err:ValueError"
        else pure (some (l.map fun n => match n with | .fin q => q | _ => 0))
  return ⟨g.w, g.h, conn == 8, dt == "int", fun ij => g.data.getD ij .nan, mask, tr⟩

def showPt (p : Rat × Rat) : String := s!"{showRat p.1}:{showRat p.2}"

/-- `polygonize conn=4|8 dtype=int|float g=HxW:... [mask=HxW:...] [t=a,b,c,d,e,f]`
    -> `col=v,.. polys=ring;ring|ring...` (ring = `x:y,x:y,...`) -/
def cmdPolygonize (a : Args) : String :=
  match parseReq a with
  | .error e => e
  | .ok r =>
    let out := polygonizeNumpy r.nx r.ny r.conn8 (closeFn r.isInt) r.values r.mask r.transform
    if !out.ok then "model-stuck" else
    let col := ",".intercalate (out.column.map showNum)
    let polys := "|".intercalate (out.polys.map fun rings =>
      ";".intercalate (rings.map fun ring => ",".intercalate (ring.map showPt)))
    s!"col={col} polys={polys}"

/-- `polyregions ...same arguments...` -> the region ids of `_calculate_regions` (no nx=1 padding) -/
def cmdPolyRegions (a : Args) : String :=
  match parseReq a with
  | .error e => e
  | .ok r =>
    let regs := calculateRegions r.nx r.ny r.conn8 (closeFn r.isInt) r.values r.mask
    s!"{r.ny}x{r.nx}:" ++ ",".intercalate (regs.map toString)

def handlers : List (String × (Args → String)) :=
  [("polygonize", cmdPolygonize), ("polyregions", cmdPolyRegions)]

end XrsVerif.Driver.PolygonizeCmd
