import XrsVerif.Core.Wire
import XrsVerif.Model.Focal
/-! driver commands for the focal / convolution model (evaluated at `Float`) -- property C09 -/
namespace XrsVerif.Driver.FocalCmd
open XrsVerif XrsVerif.Wire XrsVerif.Focal

def nanF : Float := 0.0 / 0.0

def arrOf (g : GridOf Float) : Arr Float := fun i j => g.getI nanF i j

def showFlat (rows cols : Nat) (l : List Float) : String :=
  s!"{rows}x{cols}:" ++ ",".intercalate (l.map showFloat)

/-- enumerate a window with its (a, b) positions -/
def positions (w : List (List Float)) : List (Nat × Nat × Float) :=
  (w.zipIdx).flatMap fun (row, a) => (row.zipIdx).map fun (v, b) => (a, b, v)

/-- the family of user reducers (Python twins in harness/corr_C09.py: USER_REDUCERS) -/
def userReducer (name : String) : Option (List (List Float) → Float) :=
  match name with
  | "posw" => some fun w => (positions w).foldl (fun s (a, b, v) =>
      if v.isNaN then s else s + (Float.ofNat (a * 7 + b * 3 + 1)) * v) 0.0
  | "count" => some fun w => (positions w).foldl (fun s (_, _, v) => if v.isNaN then s else s + 1.0) 0.0
  | "nanpos" => some fun w => (positions w).foldl (fun s (a, b, v) =>
      if v.isNaN then s + Float.ofNat (a * 11 + b * 5 + 1) else s) 0.0
  | "first" => some fun w => ((w.flatten.find? fun v => !v.isNaN)).getD (-1.0)
  | "last" => some fun w => ((w.flatten.reverse.find? fun v => !v.isNaN)).getD (-1.0)
  | "centre" => some fun w =>
      let r := w.length / 2
      let row := w[r]?.getD []
      let v := (row[row.length / 2]?).getD nanF
      if v.isNaN then -7.0 else v
  | "corner" => some fun w =>
      let row := w[0]?.getD []
      let v := (row[row.length - 1]?).getD nanF
      if v.isNaN then -7.0 else v
  | _ =>
    if name.startsWith "stat:" then
      (statReducer (F := Float) (name.drop 5).toString).map fun red => fun w => red w.flatten
    else none

def showExcept (r : Except String String) : String :=
  match r with
  | .ok s => s
  | .error e => s!"err:{e}"

/-- `fapply data=<grid> kernel=<grid> func=<name>` -/
def cmdApply (a : Args) : String := Id.run do
  let some d := a.get? "data" >>= parseGrid parseFloat | return "bad-args data"
  let some k := a.get? "kernel" >>= parseGrid parseFloat | return "bad-args kernel"
  let some fname := a.get? "func" | return "bad-args func"
  let some f := userReducer fname | return s!"bad-func {fname}"
  return showExcept ((Focal.apply (arrOf d) (arrOf k) d.h d.w k.h k.w f).map (showFlat d.h d.w))

/-- `fstats data=<grid> kernel=<grid> stats=a,b,c` -/
def cmdStats (a : Args) : String := Id.run do
  let some d := a.get? "data" >>= parseGrid parseFloat | return "bad-args data"
  let some k := a.get? "kernel" >>= parseGrid parseFloat | return "bad-args kernel"
  let stats := splitList ((a.get? "stats").getD "")
  return showExcept ((focalStats (arrOf d) (arrOf k) d.h d.w k.h k.w stats).map fun ls =>
    "|".intercalate (ls.map (showFlat d.h d.w)))

/-- `fmean data=<grid> passes=N excludes=list` -/
def cmdMean (a : Args) : String := Id.run do
  let some d := a.get? "data" >>= parseGrid parseFloat | return "bad-args data"
  let some p := a.nat? "passes" | return "bad-args passes"
  let some ex := (a.get? "excludes").map (parseList parseFloat) |>.getD (some []) | return "bad-args excludes"
  let out := meanN d.h d.w ex p d.rows
  return showGrid showFloat out

/-- `fconv data=<grid> kernel=<grid>` -/
def cmdConv (a : Args) : String := Id.run do
  let some d := a.get? "data" >>= parseGrid parseFloat | return "bad-args data"
  let some k := a.get? "kernel" >>= parseGrid parseFloat | return "bad-args kernel"
  return showFlat d.h d.w (convolve (arrOf d) (arrOf k) d.h d.w k.h k.w)

/-- `fhot data=<grid> kernel=<grid>` -> `z=<grid> c=<grid>` -/
def cmdHot (a : Args) : String := Id.run do
  let some d := a.get? "data" >>= parseGrid parseFloat | return "bad-args data"
  let some k := a.get? "kernel" >>= parseGrid parseFloat | return "bad-args kernel"
  match hotspotsZ (arrOf d) (arrOf k) d.h d.w k.h k.w, hotspots (arrOf d) (arrOf k) d.h d.w k.h k.w with
  | .ok zs, .ok cs => return s!"z={showFlat d.h d.w zs} c={showFlat d.h d.w cs}"
  | .error e, _ => return s!"err:{e}"
  | _, .error e => return s!"err:{e}"

/-- `fclass z=<list>` -> classes of the generated hotspot kernel -/
def cmdClass (a : Args) : String := Id.run do
  let some zs := a.get? "z" >>= parseList parseFloat | return "bad-args z"
  return ",".intercalate (zs.map fun z => showFloat (hotspotClass z))

/-- `feq a=<num> b=<num>` -> `_equal_numpy` -/
def cmdEq (a : Args) : String := Id.run do
  let some x := a.float? "a" | return "bad-args a"
  let some y := a.float? "b" | return "bad-args b"
  return if equalNumpy x y then "1" else "0"

/-- `fvalid krows=R kcols=C` -> does `custom_kernel` accept the shape -/
def cmdValid (a : Args) : String := Id.run do
  let some r := a.nat? "krows" | return "bad-args krows"
  let some c := a.nat? "kcols" | return "bad-args kcols"
  return if kernelAccepted r c then "1" else "0"

def handlers : List (String × (Args → String)) :=
  [("fapply", cmdApply), ("fstats", cmdStats), ("fmean", cmdMean), ("fconv", cmdConv), ("fhot", cmdHot),
   ("fclass", cmdClass), ("feq", cmdEq), ("fvalid", cmdValid)]

end XrsVerif.Driver.FocalCmd
