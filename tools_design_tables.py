#!/usr/bin/env python3
"""print the generated parts of DESIGN.md: defects table (from KNOWN_FINDINGS.txt + /repo log) and the
seeded-change table (from seeded/*/meta.json + seeded/RESULTS.json).  Usage: tools_design_tables.py > /tmp/tables.md"""
import json, os, re, subprocess
HERE = os.path.dirname(os.path.abspath(__file__))

def defects():
    out = ["| id | property | /repo commit | what failed on the original tree |", "|----|----------|--------------|-----------------------------------|"]
    for line in open(os.path.join(HERE, "KNOWN_FINDINGS.txt")):
        m = re.match(r"fixed: property=(\S+) (\S+) (D\d+) (.*)", line.strip())
        if m:
            out.append(f"| {m.group(3)} | {m.group(1)} | `{m.group(2)}` | {m.group(4)} |")
    for line in open(os.path.join(HERE, "KNOWN_FINDINGS.txt")):
        m = re.match(r"known: property=(\S+) key=(\S+) (.*)", line.strip())
        if m:
            out.append(f"| (known) | {m.group(1)} | not repaired | key `{m.group(2)}`: {m.group(3)} |")
    return "\n".join(out)

def seeded():
    res = json.load(open(os.path.join(HERE, "seeded", "RESULTS.json")))
    out = ["| seeded change | property | what it does / needs | caught by | how |", "|---|---|---|---|---|"]
    for name in sorted(res, key=lambda s: (s.split('-')[0], s)):
        d = os.path.join(HERE, "seeded", name)
        meta = json.load(open(os.path.join(d, "meta.json")))
        r = res[name]
        checks = r.get("checks", {})
        by, how = [], []
        for p, v in checks.items():
            if v["exit"] == 1 and v["violations"]:
                by.append(p)
                how.append("proof/correspondence broke, no failing input" if v["violations"][0].endswith("no-failing-input-found") else "failing-input replay")
        summ = (meta.get("summary", "")[:230] + "…").replace("|", "/").replace("\n", " ")
        out.append(f"| `{name}` | {meta['property']} | {summ} | {', '.join(by) if by else '**missed**'} | {'; '.join(sorted(set(how)))} |")
    return "\n".join(out)

def status():
    """per-property numbers from the committed evidence files (quick tier, seed 0)"""
    ties = {"C01": "G (T1/T2) + H", "C02": "H + G facts + T3 (strides)", "C03": "H + G facts", "C04": "H + G facts",
            "C05": "H (4 seams) + G facts + T3 (tree, events, sweep)", "C06": "H + G + T3 (line, driver, direction)",
            "C07": "G + H (model shared with C06)", "C08": "G (T1) + H", "C09": "G + H + T3 (convolution, apply x7, mean)",
            "C10": "G (buffer programs, dask kinds) + H", "C11": "G (effect summaries) + H", "C12": "H + G facts + T3 (_cpu_bin)",
            "C13": "G (T1) + H", "C14": "H + G facts + T3 (all of pathfinding)", "C15": "H + G facts (wrapper glue)",
            "C16": "H + G facts + T3 (_area_connectivity)", "C17": "G facts + H", "C18": "G facts + H + T3 (_trim, _crop)",
            "C19": "G (T1) + H"}
    out = ["| id | theorems audited | tie | quick cases / distinct non-trivial | quick wall (s) | details |", "|---|---|---|---|---|---|"]
    for i in range(1, 20):
        pid = f"C{i:02d}"
        ev = json.load(open(os.path.join(HERE, "evidence", pid + ".json")))
        c = ev["coverage"]
        out.append(f"| {pid} | {len(c.get('theorems', []))} | {ties[pid]} | {c.get('evaluations')} / {c.get('distinct_nontrivial')} | "
                   f"{round(ev.get('wall_s', 0))} | `design_notes/{pid}.md` |")
    return "\n".join(out)


import sys
if "--update" in sys.argv:
    p = os.path.join(HERE, "DESIGN.md")
    s = open(p).read()
    for name, text in (("defects", defects()), ("seeded", seeded()), ("status", status())):
        a, b = f"<!-- BEGIN generated:{name} -->\n", f"<!-- END generated:{name} -->"
        i, j = s.index(a) + len(a), s.index(b)
        s = s[:i] + text + "\n" + s[j:]
    open(p, "w").write(s)
    print("DESIGN.md tables updated")
else:
    print("### Defects found on the original tree\n\n" + defects() + "\n\n### Seeded changes\n\n" + seeded())
