#!/usr/bin/env python3
"""
tools_seeded.py -- run the checks against the seeded defects in seeded/<name>/.

  tools_seeded.py verify <name>    confirm a candidate in a scratch worktree: the patch applies, the demo passes
                                   without and fails with it, the repository's relevant tests (meta.json: tests)
                                   still pass with it
  tools_seeded.py run [<name>...]  for each seeded change: apply it to a scratch worktree of /repo, run the property's
                                   quick check against that tree (XRS_REPO), undo; prints a table and writes
                                   seeded/RESULTS.json
  tools_seeded.py benign [<name>...]  the same for the behaviour-preserving rewrites under benign/ (meta.json:
                                   checks = the properties whose code is touched): any VIOLATION is a false alarm;
                                   writes benign/RESULTS.json

/repo itself is never modified.
"""
import json
import os
import subprocess
import sys
import time

HERE = os.path.dirname(os.path.abspath(__file__))
SEEDED = os.path.join(HERE, "seeded")
REPO = "/repo"
PY = "/venv/bin/python"


def sh(cmd, cwd=None, env=None, timeout=3600):
    p = subprocess.run(cmd, cwd=cwd, env=env, stdout=subprocess.PIPE, stderr=subprocess.STDOUT, text=True, timeout=timeout)
    return p.returncode, p.stdout


def names(args):
    if args:
        return args
    return sorted(d for d in os.listdir(SEEDED) if os.path.isdir(os.path.join(SEEDED, d)))


def verify(name):
    d = os.path.join(SEEDED, name)
    meta = json.load(open(os.path.join(d, "meta.json")))
    wt = f"/tmp/seedwt-{name}"
    sh(["git", "-C", REPO, "worktree", "remove", "--force", wt])
    rc, out = sh(["git", "-C", REPO, "worktree", "add", wt, "HEAD"])
    if rc != 0:
        print(out)
        return False
    ok = True
    try:
        env = dict(os.environ, PYTHONPATH=wt, PYTHONWARNINGS="ignore")
        rc0, out0 = sh([PY, os.path.join(d, "demo.py")], cwd=wt, env=env, timeout=1800)
        rc, out = sh(["git", "apply", os.path.join(d, "patch.diff")], cwd=wt)
        if rc != 0:
            print("patch does not apply:", out)
            return False
        rc1, out1 = sh([PY, os.path.join(d, "demo.py")], cwd=wt, env=env, timeout=1800)
        print(f"[{name}] demo without patch: exit {rc0}; with patch: exit {rc1}")
        if rc0 != 0 or rc1 == 0:
            print(out0[-800:], "\n---\n", out1[-800:])
            ok = False
        tests = meta.get("tests") or ["xrspatial/tests"]
        rc, out = sh([PY, "-m", "pytest", "-q", "-p", "no:cacheprovider", "--timeout=900", "-x",
                      "--deselect", "xrspatial/tests/test_viewshed.py::test_viewshed"] + tests, cwd=wt, env=env, timeout=3000)
        tail = out.strip().splitlines()[-1] if out.strip() else ""
        print(f"[{name}] tests {tests}: exit {rc}: {tail}")
        if rc not in (0, 5):       # 5 = nothing collected after the deselection (test_viewshed.py)
            print(out[-1500:])
            ok = False
        meta["verified"] = dict(demo_without=rc0, demo_with=rc1, tests_exit=rc, tests_tail=tail,
                                at=time.strftime("%Y-%m-%d %H:%M"))
        json.dump(meta, open(os.path.join(d, "meta.json"), "w"), indent=1)
    finally:
        sh(["git", "-C", REPO, "worktree", "remove", "--force", wt])
    return ok


def run(which, base=SEEDED, expect_clean=False):
    """apply each change to a scratch worktree of /repo (never to /repo itself: other work may be reading it), run the
    quick check(s) with XRS_REPO pointing at it, undo.  `expect_clean`: the changes are behaviour-preserving
    rewrites, a VIOLATION is a false alarm."""
    wt = f"/tmp/seedrun-wt-{os.getpid()}"
    sh(["git", "-C", REPO, "worktree", "remove", "--force", wt])
    rc, out = sh(["git", "-C", REPO, "worktree", "add", wt, "HEAD"])
    if rc != 0:
        print(out)
        return 2
    respath = os.path.join(base, "RESULTS.json")
    results = json.load(open(respath)) if os.path.exists(respath) else {}
    env = dict(os.environ, XRS_REPO=wt)
    try:
        for name in which:
            d = os.path.join(base, name)
            meta = json.load(open(os.path.join(d, "meta.json")))
            props = meta.get("check_with") or ([meta["property"]] if "property" in meta else meta["checks"])
            rc, out = sh(["git", "apply", os.path.join(d, "patch.diff")], cwd=wt)
            if rc != 0:
                print(f"[{name}] patch does not apply to /repo HEAD: {out[:300]}")
                results[name] = dict(status="patch-does-not-apply")
                continue
            try:
                res = {}
                for prop in props:
                    t0 = time.time()
                    rc, out = sh([os.path.join(HERE, "check"), prop, "--tier", "quick"], cwd=HERE, env=env, timeout=5400)
                    viol = [ln for ln in out.splitlines() if ln.startswith("VIOLATION")]
                    res[prop] = dict(exit=rc, violations=viol[:3], wall_s=round(time.time() - t0, 1),
                                     tail=out.strip().splitlines()[-1][:300] if out.strip() else "")
                    verdict = ('CAUGHT' if rc == 1 and viol else 'MISSED' if rc == 0 else 'INFRA') if not expect_clean \
                        else ('FALSE-ALARM' if rc == 1 else 'quiet' if rc == 0 else 'INFRA')
                    print(f"[{name}] {prop}: exit {rc} {verdict} {viol[0] if viol else ''} ({res[prop]['wall_s']}s)", flush=True)
                results[name] = dict(property=meta.get("property", ""), checks=res,
                                     caught=any(v["exit"] == 1 and v["violations"] for v in res.values()),
                                     with_failing_input=any(v["exit"] == 1 and v["violations"]
                                                            and not v["violations"][0].endswith("no-failing-input-found")
                                                            for v in res.values()))
            finally:
                sh(["git", "checkout", "--", "."], cwd=wt)
            json.dump(results, open(respath, "w"), indent=1, sort_keys=True)
    finally:
        sh(["git", "-C", REPO, "worktree", "remove", "--force", wt])
        # leave Gen/, the build and the evidence in the state of the unchanged tree
        sh([PY, os.path.join(HERE, "harness", "translate.py")])
        sh(["git", "checkout", "--", "evidence"], cwd=HERE)
    return 0


if __name__ == "__main__":
    if len(sys.argv) >= 3 and sys.argv[1] == "verify":
        sys.exit(0 if all([verify(n) for n in sys.argv[2:]]) else 1)
    if len(sys.argv) >= 2 and sys.argv[1] == "run":
        sys.exit(run(names(sys.argv[2:])))
    if len(sys.argv) >= 2 and sys.argv[1] == "benign":
        base = os.path.join(HERE, "benign")
        which = sys.argv[2:] or sorted(d for d in os.listdir(base) if os.path.isdir(os.path.join(base, d)))
        sys.exit(run(which, base=base, expect_clean=True))
    print(__doc__)
